#!/bin/sh
# usage: [PROPS="C06 C10"] tools/run_all.sh <quick|thorough>   -- runs every registered check (or those in PROPS), one line per property
cd "$(dirname "$0")/.." || exit 2
TIER="${1:-quick}"
rc=0
for p in ${PROPS:-C03 C04 C05 C06 C07 C09 C10 C11 C12 C13 C15 C16 C17 C18}; do
  out=$(./check $p $TIER 2>&1); r=$?
  echo "$p exit=$r $(echo "$out" | grep -E 'SUMMARY' | sed -e 's/SUMMARY property=[A-Z0-9]* //')"
  echo "$out" | grep -E "VIOLATION|HARNESS-ERROR" 
  [ $r -ne 0 ] && rc=$r
done
exit $rc
