#!/usr/bin/env python3
"""Writes mutants/RESULTS.md from /tmp/mutant-results.log (tools/mutant_queue.sh)."""
import json, re
idx = {e['name']: e for e in json.load(open('/verif/mutants/index.json'))}
res = {}
for l in open(__import__('os').environ.get('MUTANT_LOG','/tmp/mutant-results.log')):
    m = re.match(r'(CAUGHT|MISSED|HARNESS-ERROR|MUTANT-DOES-NOT-BUILD|PATCH-DOES-NOT-APPLY) (\S+)\.patch (C\d+)?(.*)', l)
    if m:
        clause = re.search(r'clause=([\w<>=!\-]+)', m.group(4) or '')
        res.setdefault(m.group(2), []).append((m.group(3) or '', m.group(1), clause.group(1) if clause else ''))
with open('/verif/mutants/RESULTS.md', 'w') as f:
    f.write("# Own mutants and benign refactors (tools/mutant_queue.sh quick, scratch copies)\n\n")
    f.write("`unit tests`: whether the mutant passes rubato's 96 tests (the realistic ones do). A MISSED entry for a property the mutant does not actually break is expected and explained in the note; benign refactors must be MISSED by every check.\n\n")
    f.write("| mutant | unit tests | verdicts (property: verdict, first clause) | note |\n|---|---|---|---|\n")
    for name, e in idx.items():
        r = res.get(name, [])
        v = '; '.join(f"{p}: {vd}{' ('+c+')' if c else ''}" for p, vd, c in r) or 'not run'
        if name.startswith('benign'):
            n_missed = sum(1 for _, vd, _ in r if vd == 'MISSED')
            v = f"{n_missed}/{len(r)} checks quiet" + ('' if n_missed == len(r) else ' !! ' + '; '.join(f"{p}: {vd}" for p, vd, c in r if vd != 'MISSED'))
        f.write(f"| {name} | {'pass' if e.get('passes_unit_tests') else 'FAIL'} | {v} | {e['note']} |\n")
print("wrote mutants/RESULTS.md")
