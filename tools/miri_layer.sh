#!/bin/sh
# usage: tools/miri_layer.sh <C03|C18> <scenarios-per-process> <processes> <out.json>
# Runs tiny simulated histories of the real rubato code under Miri (Tree Borrows, deterministic floats).
#   C03: Miri is the UB oracle (out-of-slice reads in SIMD/unchecked code, invalid values, leaks of borrows).
#   C18: instances run on genuinely concurrent threads; Miri's seeded scheduler (with preemption) picks the
#        interleaving inside calls and its data-race detector is the oracle for shared mutable state.
# Prints "MIRI-VIOLATION <prop> <replay-file>" for each finding and writes a JSON summary. Exit 1 if any.
set -u
P="$1"; PER="$2"; N="$3"; OUT="$4"
ROOT="$(cd "$(dirname "$0")/.." && pwd)"
cd "$ROOT/sim" || exit 2
SEED="${VERIF_SEED:-1}"
FLAGS="-Zmiri-tree-borrows -Zmiri-deterministic-floats -Zmiri-disable-isolation"
RF="--cfg rubato_verif"
TD=""
if [ "$P" = C03S ]; then
  # SIMD pass: sinc kinds only (rustfft's own AVX code is not Miri-clean), own target dir because of the flags
  RF="--cfg rubato_verif -C target-feature=+avx,+fma,+sse3"
  TD="$ROOT/sim/target/miri-simd"
  export CARGO_TARGET_DIR="$TD"
fi
# sinc kernels: let Miri interpret the AVX/SSE code paths too (rustfft's own AVX code trips Miri's alignment
# check, so the FFT kinds run with default target features in a second pass)
T0=$(date +%s)
mkdir -p "$ROOT/sim/target/miri-logs" "$ROOT/replays"
rm -f "$ROOT/sim/target/miri-logs/$P-"*.log
# build once
VERIF_SEED=$SEED MIRIFLAGS="$FLAGS" RUSTFLAGS="$RF" cargo +nightly miri run --offline -- miri "$P" 0 0 >"$ROOT/sim/target/miri-logs/$P-build.log" 2>&1 || {
  echo "HARNESS-ERROR: miri build failed"; tail -5 "$ROOT/sim/target/miri-logs/$P-build.log"; exit 2; }
k=0
while [ $k -lt "$N" ]; do
  start=$((k*PER))
  ( VERIF_SEED=$SEED MIRIFLAGS="$FLAGS -Zmiri-seed=$k -Zmiri-preemption-rate=0.05" RUSTFLAGS="$RF" \
    cargo +nightly miri run --offline -- miri "$P" $start "$PER" >"$ROOT/sim/target/miri-logs/$P-$k.log" 2>&1; echo "EXIT $?" >>"$ROOT/sim/target/miri-logs/$P-$k.log" ) &
  k=$((k+1))
done
wait
done_n=0; viol=0; files=""
for f in "$ROOT/sim/target/miri-logs/$P-"[0-9]*.log; do
  e=$(grep -c "^MIRI-END" "$f"); done_n=$((done_n+e))
  rc=$(grep "^EXIT" "$f" | sed 's/EXIT //')
  if grep -q "^MIRI-VIOL\|Undefined Behavior\|Data race\|error: unsupported\|error: abnormal" "$f" || [ "${rc:-1}" != 0 ]; then
    viol=$((viol+1))
    k=$(basename "$f" .log | sed "s/$P-//")
    R="$ROOT/replays/$P-miri-$SEED-$k.json"
    last=$(grep "^MIRI-BEGIN" "$f" | tail -1)
    msg=$(grep -m1 -A3 "Undefined Behavior\|Data race\|^MIRI-VIOL\|^error" "$f" | tr '\n' ' ' | cut -c1-600 | sed 's/"/\\"/g')
    printf '{"miri":true,"property":"%s","verif_seed":%s,"process":%s,"per_process":%s,"report":"%s","last_begin":"%s"}\n' "$P" "$SEED" "$k" "$PER" "$msg" "$(echo "$last" | cut -c1-200 | sed 's/"/\\"/g')" > "$R"
    echo "MIRI-VIOLATION $P $R"
    files="$files $R"
  fi
done
T1=$(date +%s)
printf '{"tool":"cargo +nightly miri","flags":"%s -Zmiri-seed=<process> -Zmiri-preemption-rate=0.05","scenarios_completed":%s,"processes":%s,"scenarios_per_process":%s,"findings":%s,"wall_s":%s}\n' "$FLAGS" "$done_n" "$N" "$PER" "$viol" "$((T1-T0))" > "$OUT"
[ $viol -gt 0 ] && exit 1
exit 0
