#!/bin/sh
# usage: tools/confirm_seeded.sh <PROP> <a|b>
# Confirms a sub-agent's seeded change in its scratch worktree /tmp/wt-<PROP>:
#   with the patch: builds, the 96 tests pass, the demo fails; without it: the demo passes.
P="$1"; X="$2"
D="${SEEDED_OUT:-/tmp/seeded-out}/$P/variant_$X"; W="/tmp/cwt"   # a confirmation worktree of its own: never the agent's
[ -f "$D/patch.diff" ] || { echo "NO-PATCH $P $X"; exit 2; }
cd "$W" || exit 2
git checkout -q -- src 2>/dev/null; rm -f examples/seeded_demo_*.rs
mkdir -p examples; cp "$D/demo.rs" "examples/seeded_demo_$X.rs"
cargo run --offline --example "seeded_demo_$X" >/tmp/cs-$P-$X-pristine.log 2>&1; r0=$?
git apply "$D/patch.diff" || { echo "APPLY-FAIL $P $X"; exit 2; }
t=$(cargo test --offline 2>&1 | grep -E "^test result" | head -1)
cargo run --offline --example "seeded_demo_$X" >/tmp/cs-$P-$X-patched.log 2>&1; r1=$?
git checkout -q -- src
echo "CONFIRM $P $X demo_pristine_exit=$r0 demo_patched_exit=$r1 tests=[$t]"
