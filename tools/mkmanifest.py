#!/usr/bin/env python3
"""Writes /verif/MANIFEST.json from the table below (single source of truth for the checks)."""
import json, os
ROOT = os.path.dirname(os.path.dirname(os.path.abspath(__file__)))

TB = ("Sampling, not proof. Trusted base: the simulator (scenario generator, executor, oracles in /verif/sim), "
      "rustc/std debug-assertion UB checks, serde_json. Real code under test: /repo working tree built with --cfg rubato_verif.")

CHECKS = {
 "C03": ("exploration", "7",
   "Seeded simulation of random valid call histories (4 workload profiles incl. a discrete-event rate-matching loop) over all 7 types x f32/f64 with control faults (ratio steps/ramps at and inside the bounds, chunk changes, resets, partial/flush calls, slack buffers, masks). Oracle: every call completes Ok, no panic, no abort from std's unsafe-precondition/overflow checks (process isolation), outputs finite; probe-interpolator read-range check; Miri layer in thorough. Exploration because the history space is unbounded: evidence is a large sampled batch with replayable, minimised counterexamples.",
   "deterministic simulation: seeded call-history search with control-fault injection, crash containment by process isolation, UB-check build + Miri"),
 "C04": ("exploration", "7",
   "Same histories as C03; per-step invariants on getters vs returned counts and a NaN-sentinel high-water mark on every output buffer (exactly the reported frames are written, nothing beyond).",
   "deterministic simulation: per-step invariant checking over seeded fault histories (sentinel buffers)"),
 "C07": ("exploration", "7",
   "Constant-ratio streams under random chunk schedules incl. very long 1-3 frame chunk streams; conservation invariant on running totals after every call (async drift bound; FFT within one block, FftFixedInOut exact and smallest admissible block by integer arithmetic).",
   "deterministic simulation: conservation invariant at every step of seeded chunk schedules"),
 "C09": ("exploration", "7",
   "Allocator seam: the harness global allocator counts every alloc/realloc/dealloc on the calling thread while a real-time call (process_into_buffer, setters incl. rejected, reset, getters) is in progress, at every point of seeded histories.",
   "deterministic simulation with allocator fault seam armed around every real-time call"),
}

NA = {
 "C01": "Pass-band fidelity is a pure numerical function of (signal, filter configuration); no schedule, fault, history or interleaving can change it. Its only history clause (chunking / variant independence) is C05, which is decided here. Not a simulation target (DESIGN.md section 8).",
 "C02": "Stop-band rejection is a pure function of (tone, window, sinc_len, cutoff, ratio); nothing to schedule or inject (DESIGN.md section 8).",
 "C08": "Polynomial exactness is an identity of the coefficient tables over a vector space of inputs; its chunking clause is C05. C06 uses only the degree-1 case as an instrument and self-checks it (DESIGN.md section 8).",
 "C14": "Reported delay vs measured group delay is one number per configuration, a pure function of the configuration; flush protocol and accounting around it are covered by C16/C07 (DESIGN.md section 8).",
}

def main():
    checks = []
    for pid in sorted(CHECKS):
        cat, ref, text, tech = CHECKS[pid]
        checks.append({
            "property_id": pid,
            "quick_cmd": f"./check {pid} quick",
            "thorough_cmd": f"./check {pid} thorough",
            "evidence_file": f"evidence/{pid}.json",
            "replay_cmd_template": "./check --replay {path}",
            "engine": "rsim",
            "level_claimed": {"category": cat, "text": text, "design_ref": f"DESIGN.md section {ref} ({pid})"},
            "level_note": TB,
            "technique": tech,
        })
    claimed = set(CHECKS)
    na = [{"property_id": k, "reason": v} for k, v in sorted(NA.items())]
    allp = [json.loads(l)["id"] for l in open(os.path.join(ROOT, "properties.jsonl"))]
    for p in allp:
        if p not in claimed and p not in NA:
            na.append({"property_id": p, "reason": "claimed in DESIGN.md; its check is not built yet in this commit (work in progress, will move to checks)"})
    m = {
        "version": 1,
        "setup_cmd": "cd sim && CARGO_NET_OFFLINE=true cargo build --release --offline",
        "hooks": {
            "guard": "rubato_verif",
            "enable": "RUSTFLAGS=--cfg rubato_verif (set in /verif/sim/.cargo/config.toml; the simulator depends on /repo by path)",
            "baseline_off_cmd": "cd /repo && cargo test --workspace --no-fail-fast --offline",
            "source_commits": ["040f087"],
            "add_only": True,
        },
        "engines": [{
            "name": "rsim",
            "path": "sim/",
            "serves_properties": sorted(claimed),
            "kind_free_text": "deterministic simulator: SplitMix64-seeded scenario generator (configuration, signal, op history, fault placement, twin/schedule), executor over the real rubato types, supervisor with 16 isolated worker processes, delta-debugging minimiser, JSON replay files",
        }],
        "checks": checks,
        "not_applicable": sorted(na, key=lambda x: x["property_id"]),
        "notes": "Default VERIF_SEED is 1; run counts are fixed per tier so the unchanged tree gives the same answer every time. Exit 2 = harness error.",
    }
    json.dump(m, open(os.path.join(ROOT, "MANIFEST.json"), "w"), indent=1)
    print("wrote MANIFEST.json with", len(checks), "checks,", len(na), "not_applicable")

main()
