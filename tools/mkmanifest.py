#!/usr/bin/env python3
"""Writes /verif/MANIFEST.json from the table below (single source of truth for the checks)."""
import json, os
ROOT = os.path.dirname(os.path.dirname(os.path.abspath(__file__)))

TB = ("Sampling, not proof. Trusted base: the simulator (scenario generator, executor, oracles in /verif/sim), "
      "rustc/std debug-assertion UB checks, serde_json. Real code under test: /repo working tree built with --cfg rubato_verif.")

CHECKS = {
 "C03": ("exploration", "7",
   "Seeded simulation of random valid call histories (4 workload profiles incl. a discrete-event rate-matching loop with clock drift/jumps/stalls, plus directed extremes) over all 7 types x f32/f64 with control faults (ratio steps/ramps at and inside the bounds, chunk changes, resets, partial/flush calls, slack buffers, NaN-filled input slack, varying masks, ragged channels, odd-length user interpolators, wild and huge (>2^24 frames) parameter ranges, marathon histories of up to 3e5 calls on one instance, the degenerate filter length 0, aliased channel slices, a foreign call on the same thread that unwinds out of a user buffer accessor, one channel with non-finite samples). Oracle: every call completes Ok, no panic, no abort from std's unsafe-precondition/overflow checks (process isolation per worker), no hang, outputs finite; thorough adds two Miri passes (scalar+FFT, and SIMD sinc kernels). Exploration because the history space is unbounded: the evidence is a large sampled batch with replayable, minimised counterexamples.",
   "deterministic simulation: seeded call-history search with control-fault injection, crash containment by process isolation, UB-check build"),
 "C04": ("exploration", "7",
   "Same histories as C03; per-step invariants on getters vs returned counts and a NaN-sentinel high-water mark on every output buffer (exactly the reported frames are written, nothing beyond), max getters never change.",
   "deterministic simulation: per-step invariant checking over seeded fault histories (sentinel buffers)"),
 "C05": ("exploration", "7",
   "Twin executions of one input stream under two partitions: different construction chunk sizes, mid-stream set_chunk_size schedules, FixedIn<->FixedOut variants, FFT In/Out/InOut resolving to the same block, ratio steps aligned to call boundaries of both partitions; output streams compared sample by sample on the common prefix (1e-6 f64 / 1e-4 f32 of peak; Nearest modes bit-exact on exact-grid ratios).",
   "deterministic simulation: short-read/partition fault twins with sample-wise stream equality"),
 "C06": ("exploration", "7",
   "Position mode: index signal and (for sinc) a harness linear-probe SincInterpolator via the public constructor make every output frame equal its evaluation instant; points computed over non-consecutive (stale/skipped) storage are poisoned. Oracle over the recorded history under ratio step/ramp schedules incl. exact bounds and a clock-drift controller: instants strictly increasing, every spacing inside [1/r_new, 1/r_old], stepped change exact from the first frame, ramp monotone, exact new spacing in the call after.",
   "deterministic simulation: time-warp oracle on recovered evaluation instants under ratio-control fault schedules"),
 "C07": ("exploration", "7",
   "Constant-ratio streams under random chunk schedules incl. very long 1-3 frame chunk streams, streams used at other ratios and then reset, segments after a ratio change, and streaming ultra-long runs (up to 2.5e9 frames / 3e7 calls) at near-resonant ratios; conservation invariant on running totals after every call (async drift bound; FFT within one block, FftFixedInOut exact and smallest admissible block by integer arithmetic).",
   "deterministic simulation: conservation invariant at every step of seeded chunk schedules"),
 "C09": ("exploration", "7",
   "Allocator seam: the harness global allocator counts every alloc/realloc/dealloc on the calling thread while a real-time call (process_into_buffer, setters incl. rejected, reset, getters) is in progress, at every point of seeded histories.",
   "deterministic simulation with allocator fault seam armed around every real-time call"),
 "C10": ("exploration", "7",
   "Restart injection: reset() at an arbitrary point of an arbitrary prefix history (pending ramps, reduced chunk size, parked FFT frames, masked and failed calls); getters and every following call compared bit-exactly with a freshly constructed twin fed the same data.",
   "deterministic simulation: crash/restart (reset) injection with fresh-twin refinement, bit-exact"),
 "C11": ("exploration", "7",
   "n-channel instance vs n mono twins with the same history; constant masks incl. all-false, inactive channels as empty slices, sentinel-filled outputs of masked channels must stay untouched; counts equal with and without mask.",
   "deterministic simulation: per-channel twin refinement with mask faults and sentinel buffers"),
 "C12": ("fault_enumeration", "7",
   "At random points of live histories every control-value class is applied (both exact bounds, +-1..3 ulp neighbours, NaN, infinities, zero, negative, subnormal, huge, out-of-range; chunk 0/1/max/max+1/usize::MAX), through both setters, ramp on/off. Original ratios from 1e-5.5 to 1e5.5. Acceptance is compared with an exact reference model of the documented ranges; rejected calls must leave getters and the following calls bit-identical to a twin that never saw them; accepted relative calls must equal the absolute call; accepted chunk sizes must be applied by the next call.",
   "deterministic simulation: enumerated control-value faults at seeded history points against a reference acceptance model + skip-twin"),
 "C13": ("fault_enumeration", "7",
   "Single-fault malformed calls (wrong in/out channel counts, wrong mask length, one active channel short by 1..all) through all eight entry paths at random points of live histories, long bursts of rejected calls, instances with chunk size 0, a foreign call on the thread that unwinds out of a user buffer accessor, plus invalid constructor arguments (the other arguments arbitrary, zeros included); oracle: exact error variant and fields, no panic, output buffers still 100 % sentinel, state bit-identical to a twin that skipped the calls.",
   "deterministic simulation: enumerated malformed-argument faults with exact-error model, sentinel buffers and skip-twin"),
 "C15": ("exploration", "7",
   "CPU seam (hook H1) runs the real make_interpolator dispatch on simulated CPUs (all features / no AVX / no FMA / no AVX+FMA / none) plus forced AVX, SSE, scalar kernels; streams compared; a harness cross-check interpolator evaluates all kernels on every (wave, index, subindex) the resampler really issues against a summation-order bound built from the recovered taps, and re-runs kernels on the window embedded among NaNs at a random alignment.",
   "deterministic simulation: CPU-feature fault seam + per-call kernel cross-check on arguments reached by seeded histories"),
 "C16": ("exploration", "7",
   "Twin takes another of the eight entry paths (process, process_into_buffer, partial variants, VecResampler object) for the same data at every call; bit-exact outputs, counts and following state; VecResampler getters/setters forwarded; aliased and ragged channel slices, a foreign partial call on the same thread that unwinds mid-call; bounded liveness of the None-flush protocol after the last real input; the provided trait methods and the VecResampler wrapper are also exercised on a harness-written Resampler implementor.",
   "deterministic simulation: EOF/partial-call injection with path-twin equality and bounded-liveness check"),
 "C17": ("exploration", "7",
   "f32 and f64 twins on the same (f32-rounded) stream and history: identical getter/count sequences at every step, table-normalisation gain judged separately (worst-case n*eps/2), residual within a len- or log2(N)-scaled multiple of f32 epsilon times peak; signal peaks from 1e-25 to 1e25.",
   "deterministic simulation: cross-type twin refinement over seeded fault histories"),
 "C18": ("exploration", "7",
   "Baton scheduler: 2-16 real caller threads, one runnable at a time, a seeded schedule picks which instance takes its next call on which thread and migrates instances between threads at call boundaries (instances built on different threads, identical-config groups sharing planner caches); siblings differing in one construction parameter, late constructions, failing constructor calls and foreign calls that unwind out of a user buffer accessor on a scheduled thread; every call's result digest must equal the solo reference computed in a fresh process per instance; failures that depend on the worker's process history are violations replayed with that history; thorough adds Miri with preemption on concurrent threads.",
   "deterministic simulation: seeded thread-schedule search (baton scheduler with migration) against per-process solo references"),
}

NA = {
 "C01": "Pass-band fidelity is a pure numerical function of (signal, filter configuration); no schedule, fault, history or interleaving can change it. Its only history clause (chunking / variant independence) is C05, which is decided here. Not a simulation target (DESIGN.md section 8).",
 "C02": "Stop-band rejection is a pure function of (tone, window, sinc_len, cutoff, ratio); nothing to schedule or inject (DESIGN.md section 8).",
 "C08": "Polynomial exactness is an identity of the coefficient tables over a vector space of inputs; its chunking clause is C05. C06 uses only the degree-1 case as an instrument and self-checks it (DESIGN.md section 8).",
 "C14": "Reported delay vs measured group delay is one number per configuration, a pure function of the configuration; flush protocol and accounting around it are covered by C16/C07 (DESIGN.md section 8).",
}

def main():
    checks = []
    for pid in sorted(CHECKS):
        cat, ref, text, tech = CHECKS[pid]
        checks.append({
            "property_id": pid,
            "quick_cmd": f"./check {pid} quick",
            "thorough_cmd": f"./check {pid} thorough",
            "evidence_file": f"evidence/{pid}.json",
            "replay_cmd_template": "./check --replay {path}",
            "engine": "rsim",
            "level_claimed": {"category": cat, "text": text, "design_ref": f"DESIGN.md section {ref} ({pid})"},
            "level_note": TB,
            "technique": tech,
        })
    claimed = set(CHECKS)
    na = [{"property_id": k, "reason": v} for k, v in sorted(NA.items())]
    allp = [json.loads(l)["id"] for l in open(os.path.join(ROOT, "properties.jsonl"))]
    for p in allp:
        if p not in claimed and p not in NA:
            na.append({"property_id": p, "reason": "claimed in DESIGN.md; its check is not built yet in this commit (work in progress, will move to checks)"})
    m = {
        "version": 1,
        "setup_cmd": "cd sim && CARGO_NET_OFFLINE=true cargo build --release --offline",
        "hooks": {
            "guard": "rubato_verif",
            "enable": "RUSTFLAGS=--cfg rubato_verif (set in /verif/sim/.cargo/config.toml; the simulator depends on /repo by path)",
            "baseline_off_cmd": "cd /repo && cargo test --workspace --no-fail-fast --offline",
            "source_commits": ["040f087"],
            "add_only": True,
        },
        "engines": [{
            "name": "rsim",
            "path": "sim/",
            "serves_properties": sorted(claimed),
            "kind_free_text": "deterministic simulator: SplitMix64-seeded scenario generator (configuration, signal, op history, fault placement, twin/schedule), executor over the real rubato types, supervisor with 16 isolated worker processes, delta-debugging minimiser, JSON replay files",
        }],
        "checks": checks,
        "not_applicable": sorted(na, key=lambda x: x["property_id"]),
        "notes": "Default VERIF_SEED is 1; run counts are fixed per tier so the unchanged tree gives the same answer every time. Exit 2 = harness error.",
    }
    json.dump(m, open(os.path.join(ROOT, "MANIFEST.json"), "w"), indent=1)
    print("wrote MANIFEST.json with", len(checks), "checks,", len(na), "not_applicable")

main()
