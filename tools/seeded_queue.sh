#!/bin/sh
# Evaluates every delivered seeded variant that has not been evaluated yet: confirm + run the target property's
# quick check against a scratch copy with the patch. Appends to /tmp/seeded-results.log.
cd "$(dirname "$0")/.." || exit 2
LOG="${SEEDED_LOG:-/tmp/seeded-results.log}"
for P in C03 C04 C05 C06 C07 C09 C10 C11 C12 C13 C15 C16 C17 C18; do
  for X in a b; do
    D="${SEEDED_OUT:-/tmp/seeded-out}/$P/variant_$X"
    [ -f "$D/patch.diff" ] && [ -f "$D/demo.rs" ] || continue
    grep -q "^DONE $P $X" $LOG 2>/dev/null && continue
    if [ -n "${SEEDED_ONLY:-}" ]; then case " $SEEDED_ONLY " in *" ${P}_$X "*) ;; *) continue;; esac; fi
    ./tools/confirm_seeded.sh $P $X >> $LOG 2>&1
    ./tools/run_mutant.sh "$D/patch.diff" "${SEEDED_TIER:-quick}" $P >> $LOG 2>&1
    echo "DONE $P $X" >> $LOG
  done
done
