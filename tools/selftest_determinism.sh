#!/bin/sh
# Determinism proof: for every property, the batch digest (order-independent fold of every run's digest, which
# covers every call result, getter and output sample bit) must be identical across repetitions and worker counts.
# usage: tools/selftest_determinism.sh [runs]   (default 3000 runs per property and seed)
cd "$(dirname "$0")/.." || exit 2
RUNS="${1:-3000}"
fail=0
for seed in 1 7; do
for p in C03 C04 C05 C06 C07 C09 C10 C11 C12 C13 C15 C16 C17 C18; do
  r=$RUNS; [ "$p" = C18 ] && r=$((RUNS/10))
  ref=""
  for w in 16 5 1 16; do
    d=$(VERIF_SEED=$seed ./check $p quick --runs $r --workers $w --no-evidence | grep SUMMARY | sed -e 's/.*digest=//')
    if [ -z "$ref" ]; then ref="$d"; fi
    if [ "$d" != "$ref" ] || [ -z "$d" ]; then echo "NONDETERMINISTIC property=$p seed=$seed workers=$w digest=$d ref=$ref"; fail=1; fi
  done
  echo "deterministic property=$p seed=$seed runs=$r digest=$ref (workers 16,5,1,16)"
done
done
exit $fail
