#!/usr/bin/env python3
"""Collects the sub-agents' seeded changes from /tmp/seeded-out into /verif/seeded/<PROP>_<x>/ with meta.json,
and writes seeded/RESULTS.md from /tmp/seeded-results.log."""
import json, os, re, shutil
NEEDS = {
 "C03_a": "FastFixedIn calc_needed_len uses the mean step: a large *ramped ratio decrease* (e.g. 2.0 -> 0.5) makes the call write more frames than output_frames_next -> unchecked write past the buffer",
 "C03_b": "SincFixedIn end index one frame too generous at both sites: needs 1/ratio just under an integer and a chunk ending in the last 2/oversampling of an input frame (130th call in the demo)",
 "C04_a": "FixedIn estimate by mean step: only after set_resample_ratio(lower, ramp=true) with a drop of ~30 % or more",
 "C04_b": "FftFixedOut::reset recomputes frames_needed before clearing saved_frames: needs chunk not a multiple of the FFT block and a reset right after a call with a short input_frames_next",
 "C05_a": "SincFixedOut skips the history move when a call needs no new input: only when the output chunk is smaller than the ratio (chunk 2 at ratio 4)",
 "C05_b": "SincFixedIn history move at the start of the next call (uses the new chunk size): only with set_chunk_size between two calls",
 "C06_a": "FastFixedOut::set_resample_ratio returns early when the value equals the pending target: set(R, ramp) followed by set(R, no ramp) without a call in between",
 "C06_b": "FastFixedIn keeps only 2*8+ceil(1/current ratio)+1 history frames: needs max relative > ~2, a chunk at a low ratio directly followed by a much higher ratio",
 "C07_a": "SincFixedOut::reset no longer restores target_ratio: a ratio change followed by reset leaves the stream at the stale ratio (drift)",
 "C07_b": "FftFixedOut next block count 'quotient+1' instead of ceiling: one block too many when the missing frames are an exact multiple of the block",
 "C09_a": "SincFixedOut internal buffer sized with 12.5 % headroom and resized on demand: one realloc on the first call after the ratio is lowered by > ~14 %",
 "C09_b": "FftFixedOut copies the mask with clear()+extend_from_slice before validating: a *rejected* call with a too-long mask reallocates channel_mask",
 "C10_a": "SincFixedOut::reset restores chunk_size after computing needed_input_size: only if set_chunk_size(n<max) is in effect at reset",
 "C10_b": "FftFixedIn::reset clears only channels active in the last stored mask: needs a channel that carried audio and was masked out in the last call before reset",
 "C11_a": "process_partial_into_buffer pads with the minimum length over all channels: only when channels differ in length (inactive channel as empty slice)",
 "C11_b": "FastFixedOut Nearest caches the last read sample keyed by position only, shared across channels: upsampling, >= 2 active channels with different signals",
 "C12_a": "FastFixedIn relative setter tests rel*max >= 1.0: the exact bound 1/max is rejected for max in {49, 98, 103, 107, 161, 187, 196, 197, ...}",
 "C12_b": "SincFixedIn::set_chunk_size uses a half-open range: exactly the construction-time chunk size is rejected",
 "C13_a": "FastFixedOut shifts its history and updates current_buffer_fill before validate_buffers: a failed call changes hidden state when input_frames_next differs from what the previous call consumed",
 "C13_b": "validate_buffers returns early when min_output_len == 0: FftFixedIn at a zero-output point accepts / panics on a wrong output channel count",
 "C15_a": "AVX f32 kernel unrolled to 16 taps without remainder: last 8 taps dropped when sinc_len % 16 == 8",
 "C15_b": "SSE kernels set flush-to-zero/denormals-are-zero around the loop: differs from scalar only when SSE is dispatched and the window's products are subnormal",
 "C16_a": "process_partial_into_buffer computes frames_in once as the minimum channel length: masked channel as empty vector -> InsufficientInputBufferSize / ragged channels truncated",
 "C16_b": "process() returns early for an all-false mask without calling process_into_buffer: state not advanced, visible on the following call",
 "C17_a": "AVX f32 kernel drops the last 8 taps when sinc_len % 16 == 8 (f32 only, AVX dispatch)",
 "C17_b": "FastFixedIn fraction computed as coerce(idx) - coerce(floor): f32 error grows with the chunk size (2200 eps at chunk 8192)",
 "C18_a": "make_sincs keeps a process-wide single-entry memo keyed without the window function: wrong filter when the previously constructed resampler (any thread) had the same parameters but another window",
 "C18_b": "make_interpolator sets FTZ/DAZ in MXCSR inside a Once: per-thread register, so only the first constructing thread flushes denormals; shows when an instance runs on another thread with subnormal signals",
}
res = {}
cur = None
for l in open('/tmp/seeded-results.log'):
    m = re.match(r'CONFIRM (C\d+) ([ab]) (.*)', l)
    if m:
        cur = f"{m.group(1)}_{m.group(2)}"; res.setdefault(cur, {})['confirm'] = m.group(3).strip(); continue
    m = re.match(r'(CAUGHT|MISSED|HARNESS-ERROR) patch.diff (C\d+) (.*)', l)
    if m and cur:
        res[cur].setdefault('runs', []).append({'verdict': m.group(1), 'property': m.group(2), 'detail': m.group(3).strip()[:600]})
rows = []
for key in sorted(NEEDS):
    p, x = key.split('_')
    src = f"/tmp/seeded-out/{p}/variant_{x}"
    dst = f"/verif/seeded/{key}"
    if not os.path.exists(src + "/patch.diff"):
        continue
    os.makedirs(dst, exist_ok=True)
    for f in ("patch.diff", "demo.rs", "notes.md"):
        if os.path.exists(f"{src}/{f}"):
            shutil.copy(f"{src}/{f}", f"{dst}/{f}")
    r = res.get(key, {})
    runs = r.get('runs', [])
    final = runs[-1] if runs else {'verdict': 'NOT-RUN', 'detail': ''}
    meta = {
        "id": key, "breaks_property": p, "author": "independent sub-agent (saw only the property text and a scratch worktree)",
        "needs_to_manifest": NEEDS[key],
        "confirmation": r.get('confirm', ''),
        "what_was_run": [
            f"tools/confirm_seeded.sh {p} {x}  (scratch worktree /tmp/cwt: patch applies, cargo test --offline passes 96 tests, demo exits non-zero with the patch and 0 without)",
            f"tools/run_mutant.sh seeded/{key}/patch.diff quick {p}  (scratch copy of /repo + scratch build of the simulator under /tmp, removed afterwards)",
        ],
        "check_runs": runs,
        "caught_by_quick_check": final['verdict'] == 'CAUGHT',
    }
    json.dump(meta, open(f"{dst}/meta.json", "w"), indent=1)
    clause = re.search(r'clause=([\w<>=!\-]+)', final.get('detail', ''))
    rows.append((key, p, final['verdict'], clause.group(1) if clause else '', len(runs), NEEDS[key]))
with open('/verif/seeded/RESULTS.md', 'w') as f:
    f.write("# Independent seeded changes (one sub-agent per property, two variants each)\n\n")
    f.write("Each change compiles, passes the 96 existing tests, and has a demonstration that fails with it and passes without it (confirmed in a scratch worktree). `check runs` counts how often the target check was run against it (a second run follows a strengthening of the check, see DESIGN.md section 13).\n\n")
    f.write("| id | property | quick check verdict | first clause | check runs | needs |\n|---|---|---|---|---|---|\n")
    for r in rows:
        f.write(f"| {r[0]} | {r[1]} | {r[2]} | {r[3]} | {r[4]} | {r[5]} |\n")
print(len(rows), "seeded changes collected;", sum(1 for r in rows if r[2] == 'CAUGHT'), "caught")
