#!/usr/bin/env python3
"""Collects the sub-agents' seeded changes (delivered under /tmp/seeded<N>-out) into /verif/seeded/<id>/ with meta.json
and writes seeded/RESULTS*.md from the queue logs (archived under seeded/logs). SEEDED_ROUND=1..8."""
import json, os, re, shutil
NEEDS = {
 "C03_a": "FastFixedIn calc_needed_len uses the mean step: a large *ramped ratio decrease* (e.g. 2.0 -> 0.5) makes the call write more frames than output_frames_next -> unchecked write past the buffer",
 "C03_b": "SincFixedIn end index one frame too generous at both sites: needs 1/ratio just under an integer and a chunk ending in the last 2/oversampling of an input frame (130th call in the demo)",
 "C04_a": "FixedIn estimate by mean step: only after set_resample_ratio(lower, ramp=true) with a drop of ~30 % or more",
 "C04_b": "FftFixedOut::reset recomputes frames_needed before clearing saved_frames: needs chunk not a multiple of the FFT block and a reset right after a call with a short input_frames_next",
 "C05_a": "SincFixedOut skips the history move when a call needs no new input: only when the output chunk is smaller than the ratio (chunk 2 at ratio 4)",
 "C05_b": "SincFixedIn history move at the start of the next call (uses the new chunk size): only with set_chunk_size between two calls",
 "C06_a": "FastFixedOut::set_resample_ratio returns early when the value equals the pending target: set(R, ramp) followed by set(R, no ramp) without a call in between",
 "C06_b": "FastFixedIn keeps only 2*8+ceil(1/current ratio)+1 history frames: needs max relative > ~2, a chunk at a low ratio directly followed by a much higher ratio",
 "C07_a": "SincFixedOut::reset no longer restores target_ratio: a ratio change followed by reset leaves the stream at the stale ratio (drift)",
 "C07_b": "FftFixedOut next block count 'quotient+1' instead of ceiling: one block too many when the missing frames are an exact multiple of the block",
 "C09_a": "SincFixedOut internal buffer sized with 12.5 % headroom and resized on demand: one realloc on the first call after the ratio is lowered by > ~14 %",
 "C09_b": "FftFixedOut copies the mask with clear()+extend_from_slice before validating: a *rejected* call with a too-long mask reallocates channel_mask",
 "C10_a": "SincFixedOut::reset restores chunk_size after computing needed_input_size: only if set_chunk_size(n<max) is in effect at reset",
 "C10_b": "FftFixedIn::reset clears only channels active in the last stored mask: needs a channel that carried audio and was masked out in the last call before reset",
 "C11_a": "process_partial_into_buffer pads with the minimum length over all channels: only when channels differ in length (inactive channel as empty slice)",
 "C11_b": "FastFixedOut Nearest caches the last read sample keyed by position only, shared across channels: upsampling, >= 2 active channels with different signals",
 "C12_a": "FastFixedIn relative setter tests rel*max >= 1.0: the exact bound 1/max is rejected for max in {49, 98, 103, 107, 161, 187, 196, 197, ...}",
 "C12_b": "SincFixedIn::set_chunk_size uses a half-open range: exactly the construction-time chunk size is rejected",
 "C13_a": "FastFixedOut shifts its history and updates current_buffer_fill before validate_buffers: a failed call changes hidden state when input_frames_next differs from what the previous call consumed",
 "C13_b": "validate_buffers returns early when min_output_len == 0: FftFixedIn at a zero-output point accepts / panics on a wrong output channel count",
 "C15_a": "AVX f32 kernel unrolled to 16 taps without remainder: last 8 taps dropped when sinc_len % 16 == 8",
 "C15_b": "SSE kernels set flush-to-zero/denormals-are-zero around the loop: differs from scalar only when SSE is dispatched and the window's products are subnormal",
 "C16_a": "process_partial_into_buffer computes frames_in once as the minimum channel length: masked channel as empty vector -> InsufficientInputBufferSize / ragged channels truncated",
 "C16_b": "process() returns early for an all-false mask without calling process_into_buffer: state not advanced, visible on the following call",
 "C17_a": "AVX f32 kernel drops the last 8 taps when sinc_len % 16 == 8 (f32 only, AVX dispatch)",
 "C17_b": "FastFixedIn fraction computed as coerce(idx) - coerce(floor): f32 error grows with the chunk size (2200 eps at chunk 8192)",
 "C18_a": "make_sincs keeps a process-wide single-entry memo keyed without the window function: wrong filter when the previously constructed resampler (any thread) had the same parameters but another window",
 "C18_b": "make_interpolator sets FTZ/DAZ in MXCSR inside a Once: per-thread register, so only the first constructing thread flushes denormals; shows when an instance runs on another thread with subnormal signals",
}
NEEDS2 = {
 "C03_a": "FastFixedIn history_len 12+C instead of 17+C (C = ceil(max/ratio)): fails only when ceil(1/(ratio/max)) = C+1 (double rounding, 415 of 878 085 two-decimal pairs), Septic, a chunk at exactly the lowest ratio ending at the bottom of its step window (chunk = 17+11k), then a jump without ramp above ratio 1",
 "C03_b": "SincFixedIn history_len sinc_len+2+C: same double-rounding pair class, Cubic, chunk = sinc_len+5+11k at exactly the lowest ratio, then a jump without ramp to a ratio above the oversampling factor",
 "C04_a": "FftFixedOut::input_frames_max as integer ceil-div while constructor/reset/process use f32: differs only for chunk_size_out >= 2^24 that f32 cannot represent (1000->999, chunk 16801*999, sub 16801)",
 "C04_b": "SincFixedOut::input_frames_max margin +2 -> +1: needs a user interpolator with odd len(), no chunk processed yet, ratio exactly original/max, and a one-ulp rounding coincidence (ratio 1.2, max 10, chunk 120, 7 taps)",
 "C05_a": "thread-local cache of the last FFT anti-aliasing filter keyed by input block size and cutoff within 5e-3: needs, on one thread, a 480->440 resampler, then twin A 480->441 (stale filter), another size, then twin B",
 "C05_b": "SincFixedOut rounds last_index to a whole frame when within 1e-8 of one: systematic only when chunk/ratio is within 1e-8 of an integer (ratio 997/(1301+5e-9)); divergence 4.5e-7 after 100 chunks",
 "C06_a": "FastFixedOut::set_resample_ratio ignores a change smaller than f32::EPSILON relative to the current target",
 "C06_b": "SincFixedOut::set_resample_ratio skips update_needed_len when the target is unchanged: set(X, ramp) immediately followed by set(X, no ramp) with bit-identical X",
 "C07_a": "FastFixedIn drops a ramped update within 1e-6 relative of the current target: drift of 0.9 ppm leaves the bound after 4.9e7 frames",
 "C07_b": "SincFixedOut Nearest snaps a step within 1e-6 of the oversampling grid onto the grid (ratio 2(1+9e-7), factor 2): drift leaves the bound after 6.1e7 output frames",
 "C09_a": "FastFixedOut caps its internal buffer at 2^22 frames and grows on demand: one realloc the first time a call needs more than ~4.19 Mi input frames (chunk 4096, ratio 1/256, relative 1/8)",
 "C09_b": "FFT types clear buffers longer than 2^20 samples in reset() by re-creating them: reset allocates only when chunk + FFT size exceeds 2^20 frames",
 "C10_a": "FftFixedOut::reset integer ceil-div vs the constructor's f32 ceil: differs only for chunk sizes above 2^24 that f32 cannot represent (6000->48000, chunk 2^24+1)",
 "C10_b": "SincFixedIn::reset restores last_index as -(len as f64 / 2.0): differs only for a custom interpolator with odd len() (15 taps)",
 "C11_a": "process_partial_into_buffer hoists the per-channel frame count: an over-long partial slice inherits the previous (shorter or empty masked) channel's count",
 "C11_b": "SincFixedOut Cubic reuses the sinc points when consecutive frames hit the same four grid points, shared across channels: >= 2 active channels and a current ratio above the oversampling factor",
 "C12_a": "SincFixedOut recomputes needed_input_size after a *rejected* absolute ratio call: visible only on a fresh/reset instance when chunk/ratio is an exact integer (44100/48000, chunk 147: 192 -> 193)",
 "C12_b": "SincFixedIn::set_chunk_size derives the limit from the buffer: zero-channel instance refuses every size",
 "C13_a": "SincFixedOut validation-failure path calls update_needed_len(): differs from the constructor value at a rounding coincidence (44100/48000, chunk multiple of 147) on a fresh/reset instance",
 "C13_b": "FastFixedIn::process_into_buffer computes its required output length as distance*ratio_max: one frame less than output_frames_next in ~1.4e-3 of small-rational first-call configurations (ratio 7/5, chunk 371): a buffer one frame short is accepted",
 "C15_a": "AVX f32 four-accumulator branch for sinc_len >= 1024 forgets s_idx += 2 in its tail: wrong coefficients only when sinc_len >= 1024 and sinc_len % 32 == 24 (1048, 1080, ...)",
 "C15_b": "AVX kernels skip an 8-sample group that compares equal to zero with an ordered predicate: a NaN in otherwise silent input is swallowed by AVX while scalar/SSE return NaN",
 "C16_a": "FftFixedIn counts ready sub-chunks with integer division while output_frames_next uses f32: process() allocates one sub-chunk too few for chunk 16 777 845 = 16305*1029 (44100->48000)",
 "C16_b": "process_partial_into_buffer fast path 'full chunk needs no padding' checks only channel 0: ragged Some(x) with channel 0 full and another active channel short returns InsufficientInputBufferSize",
 "C17_a": "AVX f64 four-accumulator path for sinc_len >= 2048 advances the wave index by 8 instead of 16",
 "C17_b": "AVX f32 block-wise summation (1024-tap blocks) restarts the wave index each block: wrong for sinc_len > 1024",
 "C18_a": "thread-local one-entry cache of the last sinc table with the cutoff keyed as (f_cutoff*1e6) as u32: an instance built right after another on the same thread with a cutoff in the same 1e-6 bucket reuses the other table",
 "C18_b": "process-wide Mutex around the FFT filter generation: a constructor call that panics inside it (absurd co-prime rates, capacity overflow) poisons it and every later FFT constructor on any thread panics",
}
NEEDS3 = {
 "C03_a": "VecResampler forwarder for process_partial_into_buffer passes None instead of the caller's mask on the flush arm: a flush through Box<dyn VecResampler> with an inactive channel whose output buffer is short or empty returns Err",
 "C03_b": "FftFixedIn collects active channel indices into an unguarded [0usize; 32]: more than 32 active channels panic",
 "C04_a": "SincFixedIn::output_frames_max() uses the current instead of the construction-time chunk size: the advertised maximum shrinks after set_chunk_size(small)",
 "C04_b": "FftFixedOut::input_frames_max() routed through the helper for the *next* call: the maximum follows saved_frames mid-life",
 "C05_a": "nearest sub-filter grid point narrowed to i32: saturates once read position * oversampling_factor reaches 2^31 (SincFixedOut, ratio 1/300, factor 4096, chunk 4096 vs 4 x 1024)",
 "C05_b": "SincFixedIn finishes a ramp only `if n > 0`: a ramped change followed by a call that produces 0 frames leaves the ramp pending, stretched over the next call's (different) chunk size",
 "C06_a": "FastFixedOut re-anchors the running position every 8192 output frames with k(k-1)/2 instead of k(k+1)/2: chunk >= 8192 and a ramped change",
 "C06_b": "oversampled grid point cast to i32 saturates when position * oversampling_factor >= 2^31 (chunk 2^20, factor 4096): instants stop increasing",
 "C07_a": "FastFixedIn floors the carried read position to 20 fractional bits: < 1e-6 frame per call, leaves the bound after 23 million 1-frame calls",
 "C07_b": "FftFixedInOut computes the gcd of the rates after casting to u32: rates >= 2^32 with a common factor of ~2^30 (7*2^30 : 3*2^30) get the wrong blocks",
 "C09_a": "validate_buffers gathers active channel indices into [usize; 64] and falls back to a Vec above 64 channels",
 "C09_b": "SincFixedOut sizes its buffer with max_relative.min(64) and resizes on demand: max_relative > 64 and a ratio below 1/65 of the original",
 "C10_a": "SincFixedOut::reset computes ceil(last_index + chunk/ratio + sinc_len) instead of ceil(chunk/ratio) + sinc_len/2: differs when chunk/ratio is an integer plus one ulp and the sum crosses a binade (ratio 0.7, chunk 714)",
 "C10_b": "FastFixedOut::reset ceil(chunk/ratio + 4) instead of ceil(chunk/ratio) + 4: same class (ratio 1.4, chunk 2863)",
 "C11_a": "SincFixedIn cubic skips three of four sinc products when frac == 0 and multiplies the stale shared points by zero: 0 * inf = NaN lets another channel's non-finite products into this channel",
 "C11_b": "FftFixedIn halves the wanted sub-chunk until wanted * channels <= 2^18: block length depends on the channel count",
 "C12_a": "SincFixedIn::set_resample_ratio gets a 'step must fit the history' guard: the exact lower bound is rejected when max/original is an integer k with fl(1/fl(1/k)) > k (49, 98, 103, 107, ...)",
 "C12_b": "SincFixedOut::set_chunk_size narrows the request with `as u32` before the range check: 2^32 + 1 is accepted as 1",
 "C13_a": "validate_buffers tracks short input channels in a u64 bitmap: > 64 channels and a short channel of index >= 64 panic (shift overflow) / report the wrong channel",
 "C13_b": "SincFixedIn counts consecutive rejected calls into a three-entry log-throttle table: the 101st rejected call in a row panics",
 "C15_a": "AVX f32 skips 8-sample blocks that compare equal to zero with an ordered predicate: a NaN inside digital silence is swallowed",
 "C15_b": "AvxInterpolator::new alone clamps f_cutoff to 1.0: relative cutoffs above 1 give a different table than scalar/SSE",
 "C16_a": "default process_partial_into_buffer returns (input_frames_next, frames_out) instead of the core call's tuple: visible only for an implementor that consumes less than input_frames_next",
 "C16_b": "VecResampler builds *_buffer_allocate from make_buffer instead of forwarding: visible only for an implementor that overrides the allocation helpers",
 "C17_a": "FftFixedIn raises sub_chunks by a byte-size heuristic: f64 splits the FFT above 32768 frames, f32 above 65536",
 "C17_b": "make_interpolator clamps the oversampling factor when the table exceeds 16 MiB: only the f64 twin between 2 Mi and 4 Mi points",
 "C18_a": "an AVX 'sanity check' in make_interpolator sets a process-wide never-cleared flag when a resampler with effective f_cutoff > ~1.4 is constructed: later sinc resamplers in the process use SSE",
 "C18_b": "FFT 'denormal clean-up' zeroes tiny overlap values on every 65536th unit counted by a process-wide static counter",
}
NEEDS4 = {
 "C03_a": "FastFixedIn Nearest branch keeps only the lower limit of the ramped step: chunk*ratio^2 < ~0.1 (chunk 8 at ratio 0.05), a ramp towards a much lower ratio pending at a call that produces a frame and starts close to its end index -> get_unchecked past the buffer",
 "C03_b": "SincFixedIn end margin from round() instead of ceil() of the largest step: oversampling factor 2 or 3 with Cubic/Quadratic (or 1 with Linear), step fraction in (0, 0.5), chunk at its construction size, last position in the last frame -> interpolator assertion panics",
 "C04_a": "FftFixedIn::output_frames_max from the scaled chunk: one block short when downsampling with chunk = q*fft_in + r, 0 < r*fft_out < fft_in (sub_chunks >= 2); first shows when saved frames wrap, after about fft_in/r calls (250 in the demo)",
 "C04_b": "SincFixedIn::output_frames_max follows the current chunk size: set_chunk_size(small), query, set_chunk_size(larger) or reset",
 "C05_a": "FftFixedInOut copies input to output when both rates are equal: only rate_in == rate_out, compared against FftFixedIn/FftFixedOut",
 "C05_b": "get_nearest_time rounds ties by the sign of the chunk-relative position: Nearest only, positions that are exact ties in binary (ratio 16 with factor 8, ratio 2 with factor 1), two chunkings",
 "C06_a": "SincFixedIn end-of-call history move sized by the next call's step: ramped change to a higher ratio with ceil(old step) - ceil(new step) > sinc_len - 2 (old ratio below ~1/sinc_len)",
 "C06_b": "FastFixedIn history move sized by the ramped loop variable: ramp to a higher ratio that completes inside one call: chunk of 1-4 frames, old ratio <= ~0.1, a call that produces a frame",
 "C07_a": "FastFixedOut stores the f32-rounded ratio back after each call: relative rate error <= 2^-25, leaves the constant bound after ~1.5e8 frames at a ratio that f32 cannot represent",
 "C07_b": "FastFixedIn stores the f32 copy of the ratio made for a trace line: same class, FixedIn ramp path, ~1.5e8 frames",
 "C10_a": "FastFixedOut::reset clears lazily by an 8-bit generation counter: exactly 256*k resets during which a channel that carried audio is never active, then a call with it active",
 "C10_b": "SincFixedIn::reset clears only from the restored read position: Cubic look-behind point, ratio above the oversampling factor at the first call after reset, window with non-zero edge tap",
 "C11_a": "FftFixedOut zero-input fast path decides by output slice length, not by the mask: chunk_out < fft_size_out, a zero-input call, a masked channel with a full-length output slice",
 "C11_b": "SincFixedIn all-false-mask stepping loop lacks the ramp clamp: constant all-false mask, a ramp that overshoots inside a small chunk, count differs by one tens of calls later",
 "C16_a": "process_partial_into_buffer reuses the padded copy of channel 0 for a channel whose slice is pointer-identical to its predecessor: >= 3 channels, channel k >= 2 aliased to k-1, not to 0",
 "C16_b": "process() runs dual-mono input (two pointer-identical slices, no mask) with mask [true,false] and clones the output: channel 1's state is not advanced, visible on the first call with distinct data",
 "C18_a": "per-thread padded input buffer not restored when a call unwinds out of a user buffer accessor: next partial call of any same-typed resampler on that thread sees stale samples as padding",
 "C18_b": "grow-only per-thread padded buffer, copy and clean-up clamp differently: a large partial call, then an over-long partial input to a smaller resampler, then a short partial call of a larger one, all on one thread",
}
NEEDS5 = {
 "C09_a": "FastFixedOut pushes every accepted ratio update into a 1024-entry ring before evicting: the 1025th accepted set_resample_ratio(_relative) on one instance without reset reallocates",
 "C09_b": "SincFixedIn logs the final step of every ramped call into a Vec::with_capacity(1024) whose only drain sits inside trace!() arguments: the 1025th ramped call of one instance reallocates",
 "C12_a": "FastFixedIn caps the extra history at 2^14 frames and rejects a ratio whose step does not fit: in-range ratios (incl. the lower bound) are refused only when max_relative/original exceeds 16384 (original 1/12000, max 2)",
 "C12_b": "SincFixedIn caps output_frames_max at 2^20 and set_chunk_size refuses a size whose needed output exceeds it: sizes inside 1..=construction size are refused once chunk*ratio exceeds 2^20",
 "C13_a": "validate_buffers returns Ok early when both required lengths are 0: only resamplers built with chunk size 0; wrong channel counts are then accepted or panic",
 "C13_b": "FftFixedIn/Out::new compute chunk_size / sub_chunks before validate_sample_rates: a zero sample rate together with sub_chunks == 0 panics instead of returning InvalidSampleRate",
 "C15_a": "AvxInterpolator::new zeroes table entries below 1e-30: one tap (f64, Blackman2, last sub-filter, tap 0, ~1e-36); visible when wave[index] outweighs the rest of the window by ~1e36",
 "C15_b": "AVX f32 kernel peels its first 8-tap block: identical for sinc_len >= 8, over-reads the wave and an empty table row at the degenerate sinc_len 0",
 "C17_a": "SincFixedIn skips a channel whose sum of squares is zero: in f32 the squares underflow for |x| below ~2.6e-23, so a quiet signal gives silence while the f64 twin resamples it",
 "C17_b": "FftResampler::resample_unit pre-checks that the block energy is finite: the f32 energy overflows for finite peaks of ~1e18 and more, so the f32 twin emits NaN blocks",
}
NEEDS6 = {
 "C03_a": "SincFixedOut buffer: the (max_rel+1) factor scales only ceil(chunk/ratio), not the sinc_len/2 term: chunk <= ratio, first call after new/reset made after lowering the ratio so that chunk/ratio lies in [floor(max_rel), max_rel], last frame in the top 2/oversampling phases -> interpolator bounds assert",
 "C03_b": "FastFixedOut::new sizes the buffer for the lowest ratio with the legacy f32 expression while the request is computed in f64: first call after new/reset at exactly the lowest ratio when the two roundings disagree (ratio 1.0, max_rel 1.1, chunk 100) -> slice bounds panic",
 "C05_a": "FastFixedOut skips the history move when a call needs no new input: chunk/ratio < 1 (chunk 2 at ratio 3.7)",
 "C05_b": "SincFixedOut moves only the history from sinc_len-1 onward: one frame short for the cubic look-behind point; Cubic, ratio above the oversampling factor, window with a non-zero edge; error 1e-7 of the amplitude",
 "C06_a": "SincFixedOut Cubic, one channel: sinc points reused while consecutive frames stay in one sub-filter cell, the 'nothing cached' value (0,0) is a valid cell: step in (sinc_len, sinc_len+1.2) and a phase coincidence of width 1/oversampling -> frames of exact 0",
 "C06_b": "SincFixedOut skips the history move when last_index + 1/ratio >= 2, ignoring a pending ramp's first increment: step > sinc_len+2, ramp to a much higher ratio, tiny chunk",
 "C10_a": "FftFixedIn::reset zeroes input_buffers only when saved_frames > 0: chunk not a multiple of the FFT length, reset exactly where the saved-frames cycle returns to 0 (1029 calls for 44100->48000 at 1024), then a masked call, then an unmasked one",
 "C10_b": "SincFixedOut::reset returns early when last_index, chunk size and target ratio are at their initial values: set_resample_ratio(x, false), set_resample_ratio_relative(1.0, true), reset() on an instance that has not processed anything",
 "C11_a": "SincFixedOut Cubic recomputes the four sinc sums only when the position enters a new sub-sample interval, array shared across channels: >= 2 active channels and a ratio above the oversampling factor",
 "C11_b": "SincFixedIn Nearest reuses the shared scalar point when a frame selects the same (index, subindex) as the previous one: >= 2 active channels, ratio above the oversampling factor",
 "C16_a": "FftFixedIn::output_frames_next as whole blocks plus one with > for >=: process() allocates one block too few when saved_frames + chunk % fft_in == fft_in exactly (call 1028 for 44100->48000 at chunk 1000)",
 "C16_b": "VecResampler forwarder of process_partial_into_buffer maps Some(&[]) to None: the boxed call accepts a zero-channel input list that the direct call rejects",
 "C18_a": "process_partial_into_buffer pads a flush (None, <= 16384 frames) from a [T::zero(); 16384] array on the stack: an instance that runs on a thread with a small (valid) stack aborts with a stack overflow on its next flush",
 "C18_b": "SincFixedIn completes a ramp only if !std::thread::panicking(): calls issued from a destructor while the thread unwinds re-ramp from the old ratio",
}
NEEDS7 = {
 "C04_a": "FastFixedIn::calc_needed_len returns 2 early when the smallest step is at least chunk_size, forgetting what an earlier call at a much lower ratio left unprocessed: chunk of a few frames with chunk*ratio <= 1, calls at a ~3x lower ratio, then a jump without ramp -> more frames written than output_frames_next",
 "C04_b": "SincFixedIn::output_frames_max returns 3 when max_chunk*ratio*max_relative <= 1: heavy decimation, tiny chunk, max_relative >= ~1.8, calls at the lowest ratio then a jump of ~3x without ramp -> output_frames_next 4 > max 3",
 "C07_a": "FftFixedIn handles at most sub_chunks+2 FFT blocks per call, surplus blocks pile up: sub_chunks >= 4, chunk smaller than ~sub_chunks^2/2, a tiny minimal block (8000->48000, chunk 7, 4 sub chunks)",
 "C07_b": "SincFixedOut::set_resample_ratio returns early when ramp && new == current ratio, leaving a stale pending ramp target: set(x, ramp), set(current, ramp) without a call in between, then any call",
 "C09_a": "FftResampler keeps at most 2^15 complex elements of scratch and falls back to realfft's allocating process(): FFT size with a prime factor above ~7800 (10007->8000)",
 "C09_b": "overlap buffers created empty when fft_size_out exceeds 2^17 and resized on first use: large nearly coprime rates (177147->262144)",
 "C12_a": "SincFixedOut::set_resample_ratio gets an input-size limit ceil(max_chunk/(orig/max)) + (len+1)/2: the exact lower bound is rejected on a fresh or just-reset instance when chunk*max/orig is an exact integer (44100/48000, max 2, chunk 441)",
 "C12_b": "FastFixedIn range test gets a third conjunct ceil(1/new) + 2*POLY < history_len: the exact lower bound is rejected when max/orig is an integer whose reciprocal does not round-trip (45, 49, 11)",
 "C13_a": "SincFixedIn validates the output length against an inline min(t, t + N*((t_end-t)/N)) bound: one less than output_frames_next on the call that performs an upward ramp when distance/t_end sits on an integer; an output one frame short is then accepted",
 "C13_b": "SincFixedOut recomputes the required input length for validation while a ramp is pending: 770 against a cached 771 in a rounding coincidence (ratio 1 -> 2.098532494758909, chunk 1000); an input one frame short passes validation and the copy panics",
 "C15_a": "AVX f32 table stored in slabs of 2^16 rows but masked with 0x7fff: oversampling factors above 32768, sub-filter indices with bit 15 set",
 "C15_b": "AVX f64 table split into blocks of at most 2^20 vectors, whole rows only, but addressed as flat: sinc_len not a power of two and sinc_len/4 * factor above 2^20",
 "C17_a": "SincFixedOut::set_resample_ratio accepts a ratio above original*max when it equals the limit after T::coerce: f32 accepts what f64 rejects within half an f32 ulp above the upper limit (absolute setter)",
 "C17_b": "SSE f32 kernel with four accumulators and 16 taps per iteration, no tail: last 8 taps dropped when sinc_len is 8 x odd; needs the SSE kernel to be dispatched (no AVX+FMA)",
}
NEEDS8 = {
 "C03_a": "SincFixedOut stores the per-frame ramp step in set_resample_ratio and set_chunk_size does not refresh it: set_chunk_size(16), ramped ratio change, set_chunk_size(1024), process -> position overshoots, interpolator assert",
 "C03_b": "FastFixedIn loop end margin from the ceiling of the start step only: a ramp to a much lower ratio in a strongly downsampling configuration (ratio 0.05, max 10, ramp to 0.1x) -> get_unchecked past the buffer",
 "C04_a": "SincFixedIn::output_frames_max shortcut ceil(chunk*ratio)+1 for max_relative == 1.0: ratio a power of two >= 1 and one chunk processed",
 "C04_b": "SincFixedOut::input_frames_max as ceil(chunk/(orig/max)) + len/2 without the +2 slack: fresh/reset state, ratio set to the exact minimum without ramp, chunk*max/orig integral and a rounding one ulp high (48000->44100, max 2, chunk 441)",
 "C05_a": "SincFixedOut::reset calls update_needed_len before restoring chunk_size: set_chunk_size(c < max), reset, process",
 "C05_b": "FastFixedOut ramp advance simplified to N*(t0+t1)/2: (t1-t0)/2 input frames short; only a ramp towards a much lower ratio whose step grows by more than ~7 frames in one call",
 "C06_a": "SincFixedOut::set_chunk_size uses the plain chunk/ratio formula instead of update_needed_len: ramped set_resample_ratio, then set_chunk_size, then process",
 "C06_b": "FastFixedIn moves the ramp locals and resample_ratio = target_ratio above validate_buffers: a rejected call right after a ramped set consumes the ramp",
 "C10_a": "FftFixedOut::reset no longer zeroes output_buffers: a channel with audio before reset masked on the first calls afterwards (saved_frames > 0), then unmasked",
 "C10_b": "SincFixedOut::reset zeroes only 2*sinc_len + current_buffer_fill samples: low-ratio call, raised ratio + call, reset, ratio lowered again with a call that masks the channel, then the channel active",
 "C11_a": "FftFixedOut::reset zeroes only channels true in the stored mask, and the mask is stored before validation: a rejected call whose mask excludes a channel with data, reset without a successful call in between, then that channel",
 "C11_b": "SincFixedIn computes the frame count in closed form for an all-false mask at constant ratio: differs from the stepping loop where accumulated rounding straddles the end index (48000/44100, chunk 1024, call 51)",
 "C16_a": "FastFixedIn::output_frames_next recomputed as (distance*ratio_max) as usize + 2 while process_into_buffer validates against the dividing formula: first call after new/reset with ratio p/q and chunk-6 a multiple of q (13/3, chunk 237) -> process() allocates one frame too few",
 "C16_b": "process_partial_into_buffer returns Ok((0,0)) early when input_frames_next() == 0 and the input is None: FftFixedOut with the output block larger than the chunk still owes saved frames",
}
NEEDS9 = {
 "C03_b": "SincFixedOut::set_resample_ratio returns early for a non-ramped set to the ratio in effect (cancels a pending ramp but skips update_needed_len): ramped change to a lower ratio, then a non-ramped set back to exactly the running ratio with no call in between -> over-consumes, last_index far negative, interpolator assert two calls later",
 "C07_b": "SincFixedIn clamps the carried last_index to >= -2*sinc_len: bites only when ceil(1/ratio) >= sinc_len (decimation by at least the sinc length, e.g. sinc_len 16 at 768000->44100) and then discards part of the remainder every chunk",
 "C12_b": "SincFixedOut::set_resample_ratio runs update_needed_len after both branches: a rejected call on a fresh or just-reset instance rewrites needed_input_size when chunk*(1/ratio) rounds across an integer relative to chunk/ratio (44100/48000, chunk 294)",
 "C13_b": "process_partial_into_buffer ignores the supplied input when input_frames_next() == 0: only FftFixedOut with the chunk smaller than the FFT block and saved frames covering the next chunk; a Some(input) with the wrong channel count is then accepted",
 "C04_b": "SincFixedOut::set_resample_ratio calls update_needed_len only when new_ratio != target_ratio: set_resample_ratio(r, ramp) then set_resample_ratio(r, no ramp) with no call in between keeps the stale ramp-based length; input_frames_next exceeds input_frames_max only with r near the lowest allowed ratio and chunk*(1/r-1/r_old)/2 > sinc_len/2+2",
 "C05_b": "SincFixedOut::set_chunk_size computes needed_input_size inline from 1/resample_ratio, ignoring a pending ramp: set_resample_ratio(lower, ramp), then set_chunk_size, then process -> stale frames at that boundary",
 "C06_b": "SincFixedOut::set_resample_ratio runs update_needed_len only when the new ratio differs from the ratio in effect: a ramped change to R1 withdrawn before the next call by setting exactly the ratio still in effect (or relative 1.0) keeps the needed size of the withdrawn ramp",
 "C10_b": "SincFixedOut::reset uses update_needed_len (ceil(-len/2 + chunk*(1/ratio) + len)) instead of the constructor's ceil(chunk/ratio)+len/2: differs only when chunk/ratio is a whole number and chunk*(1/ratio) rounds one ulp above it (48000->44100 chunk 1176; 263 of 450 560 standard-rate configs)",
 "C11_b": "process_partial_into_buffer copies the shortest non-empty active channel length for all channels: a ragged partial block with active channels of different non-zero lengths (7 and 41 frames) makes one channel's output depend on another's input length",
 "C16_b": "process_partial_into_buffer fast path: if the first active channel already holds input_frames_next frames the caller's input goes straight to process_into_buffer: ragged partial input with the first active channel full-length and a later one shorter returns InsufficientInputBufferSize",
 "C03_a": "FastFixedOut needed-input size deduplicated into chunk/target_ratio, so set_resample_ratio no longer integrates the ramp: a ramped change to a much higher ratio (1/8 -> 8 relative, max 8) requests far too few frames and the unchecked reads run into stale history",
 "C04_a": "SincFixedIn::output_frames_max simplified to chunk*orig*max_rel + 10 (drops the allowance for the input a low-ratio chunk leaves unconsumed): max_relative >= ~4, a chunk at the lowest ratio followed by a jump to the highest, non-commensurate ratio/chunk (0.97, 7.7, 256)",
 "C05_a": "SincFixedIn history shift moved from the end of a call to the start of the next, where self.chunk_size is already the next chunk's size: only a mid-stream set_chunk_size after real audio",
 "C06_a": "FastFixedOut::set_resample_ratio early return when the requested ratio equals target_ratio also skips the non-ramped update: set_resample_ratio(R, ramp) followed before the next call by set_resample_ratio(R, no ramp)",
 "C07_a": "FftFixedOut clamps the FFT blocks requested for the next call to at least one: only when the FFT output block exceeds the output chunk (44100->48000, chunk 100, sub_chunks 1), from the third call",
 "C09_a": "SincFixedOut history buffer sized for 2x the nominal input and grown with Vec::resize in update_needed_len: max_relative > ~2 and the ratio lowered below half the original (step or ramp, also after reset)",
 "C10_a": "SincFixedOut::reset recomputes needed_input_size/current_buffer_fill before restoring chunk_size: set_chunk_size(c < max) before the reset",
 "C11_a": "FastFixedIn Nearest branch enumerates after filtering the mask (rank among active channels instead of channel number): PolynomialDegree::Nearest and a mask with an inactive channel before an active one",
 "C12_a": "SincFixedIn::set_resample_ratio range-checks new_ratio/original against [1/max, max]: the exact documented lower bound original/max for (original, max) pairs whose quotient rounds one ulp below 1/max (48000->44100 max 1.1)",
 "C13_a": "Resampler::process_partial indexes the caller's mask directly (mask[chan]): only the allocating partial wrapper with Some(mask) shorter than the channel count panics",
 "C15_a": "AVX f32 kernel unrolled to 16 samples per iteration (len/16 iterations): sinc_len a multiple of 8 but not of 16 drops the last 8 taps, f32 + AVX/FMA only",
 "C16_a": "process_partial_into_buffer copies min(channel lengths) frames for all channels and drops the empty-channel case: ragged partial input, e.g. a masked channel supplied empty -> active channels' tail replaced by zeros",
 "C17_a": "f32 AVX dot product iterates len/16 times: sinc_len = 8 x odd drops 8 taps for f32 only (f64 correct); frame counts identical, f32 output off by 1e-3..5e-2 of the peak",
 "C18_a": "make_window memoises tables >= 512 points in a thread_local map keyed without the squared flag: two family-mate windows (Blackman2 then Blackman) with the same table length built on one thread; an identical instance on a fresh thread differs",
}
ROUND = int(os.environ.get('SEEDED_ROUND', '1'))
if ROUND == 2:
    NEEDS = NEEDS2
if ROUND == 3:
    NEEDS = NEEDS3
if ROUND == 4:
    NEEDS = NEEDS4
if ROUND == 5:
    NEEDS = NEEDS5
if ROUND == 6:
    NEEDS = NEEDS6
if ROUND == 7:
    NEEDS = NEEDS7
if ROUND == 8:
    NEEDS = NEEDS8
if ROUND == 9:
    NEEDS = NEEDS9
SRC_ROOT = {1: '/tmp/seeded-out', 2: '/tmp/seeded2-out', 3: '/tmp/seeded3-out', 4: '/tmp/seeded4-out', 5: '/tmp/seeded5-out', 6: '/tmp/seeded6-out', 7: '/tmp/seeded7-out', 8: '/tmp/seeded8-out', 9: '/tmp/seeded9-out'}[ROUND]
LOGS = {1: ['/tmp/seeded-results.log'], 2: ['/tmp/seeded2-baseline.log', '/tmp/seeded2-new.log', '/tmp/seeded2-final.log', '/tmp/seeded2-thorough.log'], 3: ['/tmp/seeded3-new.log', '/tmp/seeded3-thorough.log', '/tmp/seeded3-final.log', '/tmp/seeded3-final2.log'], 4: ['/tmp/seeded4-new.log', '/tmp/seeded4-thorough.log', '/tmp/seeded4-final.log', '/tmp/seeded4-confirm.log'], 5: ['/tmp/seeded5-new.log', '/tmp/seeded5-final.log', '/tmp/seeded5-thorough.log'], 6: ['/tmp/seeded6-new.log', '/tmp/seeded6-final.log', '/tmp/seeded6-thorough.log'], 7: ['/tmp/seeded7-new.log', '/tmp/seeded7-final.log', '/tmp/seeded7-thorough.log'], 8: ['/tmp/seeded8-new.log', '/tmp/seeded8-final.log', '/tmp/seeded8-thorough.log'], 9: ['/tmp/seeded9-new.log', '/tmp/seeded9-cross.log']}[ROUND]
PREFIX = {1: '', 2: 'R2_', 3: 'R3_', 4: 'R4_', 5: 'R5_', 6: 'R6_', 7: 'R7_', 8: 'R8_', 9: 'R9_'}[ROUND]
res = {}
cur = None
import itertools
lines = []
# the logs are archived under seeded/logs (the queues wrote them to /tmp)
LOGS = [('/verif/seeded/logs/' + os.path.basename(l)) if os.path.exists('/verif/seeded/logs/' + os.path.basename(l)) else l for l in LOGS]
for lg in LOGS:
    if os.path.exists(lg):
        tag = os.path.basename(lg).replace('.log', '')
        lines += [(tag, l) for l in open(lg)]
for tag, l in lines:
    m = re.match(r'CONFIRM (C\d+) ([ab]) (.*)', l)
    if m:
        cur = f"{m.group(1)}_{m.group(2)}"; res.setdefault(cur, {})['confirm'] = m.group(3).strip(); continue
    m = re.match(r'VARIANT (C\d+) ([ab])', l)
    if m:
        cur = f"{m.group(1)}_{m.group(2)}"; res.setdefault(cur, {}); continue
    m = re.match(r'APPLY-FAIL (C\d+) ([ab])', l)
    if m:
        # the patch does not apply to the tree the confirmation worktree was at (see meta: confirmation)
        cur = f"{m.group(1)}_{m.group(2)}"; res.setdefault(cur, {}).setdefault('confirm', 'patch did not apply to the confirmation worktree at that time'); continue
    m = re.match(r'PATCH-DOES-NOT-APPLY', l)
    if m and cur:
        res[cur].setdefault('runs', []).append({'stage': tag, 'verdict': 'NOT-APPLICABLE', 'property': cur.split('_')[0], 'detail': 'the patch no longer applies to /repo HEAD (the code it changes was repaired by a later fix: commit)'}); continue
    m = re.match(r'(CAUGHT|MISSED|HARNESS-ERROR) patch.diff (C\d+) (.*)', l)
    if m and cur:
        res[cur].setdefault('runs', []).append({'stage': tag, 'verdict': m.group(1), 'property': m.group(2), 'detail': m.group(3).strip()[:600]})
rows = []
tally = []
for key in sorted(NEEDS):
    p, x = key.split('_')
    src = f"{SRC_ROOT}/{p}/variant_{x}"
    dst = f"/verif/seeded/{PREFIX}{key}"
    if not os.path.exists(src + "/patch.diff") and not os.path.exists(dst + "/patch.diff"):
        continue
    os.makedirs(dst, exist_ok=True)
    for f in ("patch.diff", "demo.rs", "notes.md", "needs.txt"):
        if os.path.exists(f"{src}/{f}"):
            shutil.copy(f"{src}/{f}", f"{dst}/{f}")
    r = res.get(key, {})
    runs = r.get('runs', [])
    final = runs[-1] if runs else {'verdict': 'NOT-RUN', 'detail': ''}
    meta = {
        "id": PREFIX + key, "round": ROUND, "breaks_property": p, "author": "independent sub-agent (saw only the property text and a scratch worktree" + ("; round 9 was run in a later session against the frozen machinery, one change per property, no widening afterwards)" if ROUND == 9 else "; rounds 2 and 3 were asked for changes that ~1e5 random call histories are unlikely to hit)" if ROUND >= 2 else ")"),
        "needs_to_manifest": NEEDS[key],
        "confirmation": r.get('confirm', ''),
        "what_was_run": [
            f"tools/confirm_seeded.sh {p} {x}  (scratch worktree /tmp/cwt: patch applies, cargo test --offline passes 96 tests, demo exits non-zero with the patch and 0 without)",
            f"tools/run_mutant.sh seeded/{key}/patch.diff quick {p}  (scratch copy of /repo + scratch build of the simulator under /tmp, removed afterwards)",
        ],
        "check_runs": runs,
        "caught_by_quick_check": (not any(r['verdict'] == 'NOT-APPLICABLE' for r in runs)) and (lambda q: bool(q) and q[-1]['verdict'] == 'CAUGHT')([r for r in runs if 'thorough' not in r.get('stage', '') and r['property'] == p and r['verdict'] in ('CAUGHT', 'MISSED')]),
        "caught_by_thorough_check": any(r['verdict'] == 'CAUGHT' and 'thorough' in r.get('stage', '') and r['property'] == p for r in runs),
        "caught_by_other_property_check": sorted(set(r['property'] for r in runs if r['verdict'] == 'CAUGHT' and r['property'] != p)),
        "caught_by_any_run": any(r['verdict'] == 'CAUGHT' for r in runs),
        "stages": [(r.get('stage'), r['verdict']) for r in runs],
    }
    json.dump(meta, open(f"{dst}/meta.json", "w"), indent=1)
    clause = re.search(r'clause=([\w<>=!\-]+)', final.get('detail', ''))
    tally.append((meta['caught_by_quick_check'], meta['caught_by_thorough_check'], bool(meta['caught_by_other_property_check']), any(r['verdict'] == 'NOT-APPLICABLE' for r in runs)))
    rows.append((PREFIX + key, p, ' / '.join(f"{r.get('stage','').replace('seeded2-','').replace('seeded3-','').replace('seeded4-','').replace('seeded5-','').replace('seeded6-','').replace('seeded7-','').replace('seeded8-','').replace('seeded9-','').replace('seeded-results','run')}{'' if r['property'] == p else '(' + r['property'] + ')'}:{r['verdict']}" for r in runs) or 'NOT-RUN', clause.group(1) if clause else '', len(runs), NEEDS[key]))
with open({1: '/verif/seeded/RESULTS.md', 2: '/verif/seeded/RESULTS_round2.md', 3: '/verif/seeded/RESULTS_round3.md', 4: '/verif/seeded/RESULTS_round4.md', 5: '/verif/seeded/RESULTS_round5.md', 6: '/verif/seeded/RESULTS_round6.md', 7: '/verif/seeded/RESULTS_round7.md', 8: '/verif/seeded/RESULTS_round8.md', 9: '/verif/seeded/RESULTS_round9.md'}[ROUND], 'w') as f:
    f.write("# Independent seeded changes (one sub-agent per property, two variants each)\n\n")
    f.write("Each change compiles, passes the 96 existing tests, and has a demonstration that fails with it and passes without it (confirmed in a scratch worktree). `check runs` counts how often the target check was run against it (a second run follows a strengthening of the check, see DESIGN.md section 13).\n\n")
    f.write("| id | property | quick check verdict | first clause | check runs | needs |\n|---|---|---|---|---|---|\n")
    for r in rows:
        f.write(f"| {r[0]} | {r[1]} | {r[2]} | {r[3]} | {r[4]} | {r[5]} |\n")
print(len(rows), "seeded changes collected;", sum(1 for t in tally if t[0]), "caught by the last quick run of the target check;", sum(1 for t in tally if not t[0] and t[1]), "more at the thorough tier;", sum(1 for t in tally if not t[0] and not t[1] and t[2]), "more by another property's check;", sum(1 for t in tally if t[3]), "no longer apply")
