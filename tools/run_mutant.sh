#!/bin/sh
# usage: tools/run_mutant.sh <patch-file> <tier> <PROP> [PROP...]
# Applies the patch to a scratch copy of /repo (never to /repo itself), builds a scratch copy of the simulator
# against it and runs the given checks. Prints one line per property: CAUGHT / MISSED / HARNESS-ERROR.
# Everything lives under /tmp/mut-$$ and is removed afterwards.
set -u
PATCH="$(readlink -f "$1")"; TIER="$2"; shift 2
ROOT="$(cd "$(dirname "$0")/.." && pwd)"
W="/tmp/mut-$$"
rm -rf "$W"; mkdir -p "$W"
# REPO_REV: the /repo commit the patch was written against (default: HEAD plus the working tree)
REV="${REPO_REV:-HEAD}"
git -C /repo archive "$REV" | (mkdir -p "$W/repo" && tar -x -C "$W/repo")
if [ "$REV" = HEAD ]; then (cd /repo && git diff HEAD) | (cd "$W/repo" && patch -p1 -s >/dev/null 2>&1 || true); fi
if ! (cd "$W/repo" && patch -p1 -s < "$PATCH" >"$W/patch.log" 2>&1); then
  echo "PATCH-DOES-NOT-APPLY $(basename "$PATCH")"; cat "$W/patch.log"; rm -rf "$W"; exit 2
fi
mkdir -p "$W/sim"
SIMSRC="${SIM_SRC:-$ROOT/sim}"   # SIM_SRC: a frozen copy of the simulator sources (baseline runs while sim/ is being edited)
cp -r "$SIMSRC/src" "$SIMSRC/Cargo.toml" "$SIMSRC/Cargo.lock" "$SIMSRC/.cargo" "$W/sim/"
sed -i "s#path = \"/repo\"#path = \"$W/repo\"#" "$W/sim/Cargo.toml"
cp "$ROOT/known_findings.json" "$W/"
if ! (cd "$W/sim" && CARGO_NET_OFFLINE=true cargo build --release --offline >"$W/build.log" 2>&1); then
  echo "MUTANT-DOES-NOT-BUILD $(basename "$PATCH")"; tail -5 "$W/build.log"; rm -rf "$W"; exit 2
fi
for P in "$@"; do
  OUT=$(VERIF_ROOT="$W" "$W/sim/target/release/rsim" check "$P" "$TIER" --no-evidence 2>&1)
  RC=$?
  SUM=$(echo "$OUT" | grep SUMMARY | sed -e 's/.*runs=/runs=/' -e 's/ shapes.*wall/ wall/' -e 's/ digest.*//')
  CL=$(echo "$OUT" | grep -m2 "clause=" | cut -c1-260 | tr '\n' '|')
  case $RC in
    1) echo "CAUGHT $(basename "$PATCH") $P $SUM :: $CL";;
    0) echo "MISSED $(basename "$PATCH") $P $SUM";;
    *) echo "HARNESS-ERROR $(basename "$PATCH") $P rc=$RC $(echo "$OUT" | tail -2 | tr '\n' ' ')";;
  esac
done
rm -rf "$W"
