#!/bin/sh
# Sensitivity self-test over /verif/mutants/*.patch (own mutants + benign refactors), on scratch copies.
# usage: tools/mutant_queue.sh [tier]    results appended to /tmp/mutant-results.log
cd "$(dirname "$0")/.." || exit 2
TIER="${1:-quick}"
LOG=/tmp/mutant-results.log
python3 - <<'PY' > /tmp/mutant-list.txt
import json
for e in json.load(open('mutants/index.json')):
    t=e['targets']
    if t==['ALL']:
        t="C03 C04 C05 C06 C07 C09 C10 C11 C12 C13 C15 C16 C17 C18".split()
    print(e['name'],' '.join(t))
PY
while read name targets; do
  grep -q "^DONE $name\$" $LOG 2>/dev/null && continue
  ./tools/run_mutant.sh mutants/$name.patch $TIER $targets >> $LOG 2>&1
  echo "DONE $name" >> $LOG
done < /tmp/mutant-list.txt
