//! Scenario language: everything a run does is written down here, so that a (minimised)
//! scenario file is a complete replay.  All op arguments are *relative* (clipped against the
//! instance's advertised sizes at execution time) so that every subsequence of a valid op
//! list is again a valid history -- that is what lets the delta-debugger drop ops freely.

use serde::{Deserialize, Serialize};

#[derive(Clone, Copy, Debug, Serialize, Deserialize, PartialEq, Eq, Hash, PartialOrd, Ord)]
pub enum Kind {
    SincIn,
    SincOut,
    FastIn,
    FastOut,
    FftIn,
    FftOut,
    FftInOut,
}

pub const ALL_KINDS: [Kind; 7] = [
    Kind::SincIn,
    Kind::SincOut,
    Kind::FastIn,
    Kind::FastOut,
    Kind::FftIn,
    Kind::FftOut,
    Kind::FftInOut,
];

impl Kind {
    pub fn is_sinc(self) -> bool {
        matches!(self, Kind::SincIn | Kind::SincOut)
    }
    pub fn is_fast(self) -> bool {
        matches!(self, Kind::FastIn | Kind::FastOut)
    }
    pub fn is_async(self) -> bool {
        self.is_sinc() || self.is_fast()
    }
    pub fn is_fft(self) -> bool {
        !self.is_async()
    }
    pub fn fixed_out(self) -> bool {
        matches!(self, Kind::SincOut | Kind::FastOut | Kind::FftOut | Kind::FftInOut)
    }
    pub fn fixed_in(self) -> bool {
        matches!(self, Kind::SincIn | Kind::FastIn | Kind::FftIn | Kind::FftInOut)
    }
    pub fn name(self) -> &'static str {
        match self {
            Kind::SincIn => "SincIn",
            Kind::SincOut => "SincOut",
            Kind::FastIn => "FastIn",
            Kind::FastOut => "FastOut",
            Kind::FftIn => "FftIn",
            Kind::FftOut => "FftOut",
            Kind::FftInOut => "FftInOut",
        }
    }
}

#[derive(Clone, Copy, Debug, Serialize, Deserialize, PartialEq, Eq, Hash)]
pub enum Kernel {
    /// whatever `make_interpolator` picks under `cpu_mask` (real dispatch code)
    Auto,
    Avx,
    Sse,
    Scalar,
    /// harness linear probe: output = evaluation instant (position mode)
    Probe,
    /// harness cross-check interpolator owning one kernel of each kind
    Cross,
    /// a user-written interpolator of exactly `sinc_len` taps (any length, odd included) through the public
    /// `new_with_interpolator`: the harness linear kernel without the window check
    Custom,
}

#[derive(Clone, Debug, Serialize, Deserialize, PartialEq)]
pub struct Config {
    pub kind: Kind,
    pub f32: bool,
    /// async kinds: construction-time ratio
    pub ratio: f64,
    /// fft kinds
    pub rate_in: usize,
    pub rate_out: usize,
    pub max_rel: f64,
    pub chunk: usize,
    pub sub_chunks: usize,
    pub channels: usize,
    pub sinc_len: usize,
    pub oversampling: usize,
    /// sinc: 0 Nearest 1 Linear 2 Quadratic 3 Cubic
    pub interp: u8,
    /// 0 Blackman 1 Blackman2 2 BlackmanHarris 3 BlackmanHarris2 4 Hann 5 Hann2
    pub window: u8,
    pub f_cutoff: f32,
    /// fast: 0 Nearest 1 Linear 2 Cubic 3 Quintic 4 Septic
    pub degree: u8,
    pub kernel: Kernel,
    /// H1 mask in force while this instance is constructed (bit0 sse3, bit1 avx, bit2 fma)
    pub cpu_mask: u8,
    /// constant active-channel mask for the whole stream (None = no mask argument)
    pub mask: Option<Vec<bool>>,
    /// pass inactive channels as empty slices
    pub empty_inactive: bool,
}

impl Config {
    pub fn nominal_ratio(&self) -> f64 {
        if self.kind.is_fft() {
            self.rate_out as f64 / self.rate_in as f64
        } else {
            self.ratio
        }
    }
    /// rounded-up sinc length as the library computes it
    pub fn sinc_len_rounded(&self) -> usize {
        if self.kernel == Kernel::Custom {
            return self.sinc_len;
        }
        8 * (((self.sinc_len as f32) / 8.0).ceil() as usize)
    }
    /// filter length used in accounting bounds
    pub fn filter_len(&self) -> usize {
        if self.kind.is_sinc() {
            self.sinc_len_rounded()
        } else {
            8
        }
    }
    pub fn active(&self, ch: usize) -> bool {
        self.mask.as_ref().map(|m| m.get(ch).copied().unwrap_or(true)).unwrap_or(true)
    }
}

#[derive(Clone, Debug, Serialize, Deserialize, PartialEq)]
pub enum Signal {
    /// x[n] = n + 1 in every channel (so that the zero pre-roll is distinguishable from the first sample)
    Index,
    Noise { seed: u64 },
    /// sparse unit impulses on a noise floor of amplitude `floor`
    Impulses { seed: u64, period: u32, floor: f64 },
    Multisine { seed: u64 },
    Const { v: f64 },
    /// noise with 60 decades of dynamic range (kernel checks)
    Wide { seed: u64 },
    /// ordinary noise in most channels, but one channel (the last) carries occasional +-MAX, +-inf and NaN samples:
    /// the other channels must not notice
    Extreme { seed: u64, last_ch: usize },
    /// silence with sparse NaNs and finite impulses (kernels must agree on NaN-ness too)
    NanSparse { seed: u64 },
    /// noise of uniformly tiny amplitude `scale` (subnormal range of the sample type: flush-to-zero differences)
    Tiny { seed: u64, scale: f64 },
}

impl Signal {
    pub fn at(&self, ch: usize, n: u64) -> f64 {
        use crate::rng::{mix, noise};
        match self {
            Signal::Index => n as f64 + 1.0,
            Signal::Noise { seed } => noise(*seed, ch, n),
            Signal::Impulses { seed, period, floor } => {
                let p = (*period).max(2) as u64;
                let off = mix(*seed ^ (ch as u64 + 1)) % p;
                let base = floor * noise(*seed, ch, n);
                if n % p == off {
                    base + if mix(seed ^ n) & 1 == 0 { 1.0 } else { -1.0 }
                } else {
                    base
                }
            }
            Signal::Multisine { seed } => {
                let mut acc = 0.0;
                for k in 0..4u64 {
                    let f = 0.01 + 0.1 * ((mix(seed ^ k ^ ((ch as u64) << 8)) >> 11) as f64 / (1u64 << 53) as f64);
                    let ph = (mix(seed ^ (k + 17)) >> 11) as f64 / (1u64 << 53) as f64;
                    acc += 0.25 * (2.0 * std::f64::consts::PI * (f * n as f64 + ph)).sin();
                }
                acc
            }
            Signal::Const { v } => *v,
            Signal::Extreme { seed, last_ch } => {
                if ch == *last_ch {
                    let h = mix(*seed ^ n.wrapping_mul(31));
                    match h % 11 {
                        0 => f64::MAX,
                        1 => -f64::MAX,
                        2 => f64::INFINITY,
                        3 => f64::NAN,
                        4 => f64::NEG_INFINITY,
                        _ => noise(*seed, ch, n),
                    }
                } else {
                    noise(*seed, ch, n)
                }
            }
            Signal::NanSparse { seed } => {
                let h = mix(*seed ^ n ^ ((ch as u64) << 44));
                match h % 23 {
                    0 => f64::NAN,
                    1 | 2 => noise(*seed, ch, n),
                    _ => 0.0,
                }
            }
            Signal::Tiny { seed, scale } => noise(*seed, ch, n) * *scale,
            Signal::Wide { seed } => {
                let e = (mix(seed ^ 0x77 ^ n ^ ((ch as u64) << 40)) % 61) as i32 - 30;
                noise(*seed, ch, n) * 10f64.powi(e)
            }
        }
    }
}

/// Entry path of a processing call.  All eight must be equivalent (C16).
#[derive(Clone, Copy, Debug, Serialize, Deserialize, PartialEq, Eq, Hash)]
pub enum Path {
    IntoBuffer,
    Wrapper,
    PartialInto,
    PartialWrapper,
    VecIntoBuffer,
    VecWrapper,
    VecPartialInto,
    VecPartialWrapper,
}

impl Path {
    pub fn is_partial(self) -> bool {
        matches!(
            self,
            Path::PartialInto | Path::PartialWrapper | Path::VecPartialInto | Path::VecPartialWrapper
        )
    }
    pub fn is_wrapper(self) -> bool {
        matches!(
            self,
            Path::Wrapper | Path::PartialWrapper | Path::VecWrapper | Path::VecPartialWrapper
        )
    }
    pub fn is_vec(self) -> bool {
        matches!(
            self,
            Path::VecIntoBuffer | Path::VecWrapper | Path::VecPartialInto | Path::VecPartialWrapper
        )
    }
}

pub const ALL_PATHS: [Path; 8] = [
    Path::IntoBuffer,
    Path::Wrapper,
    Path::PartialInto,
    Path::PartialWrapper,
    Path::VecIntoBuffer,
    Path::VecWrapper,
    Path::VecPartialInto,
    Path::VecPartialWrapper,
];

/// One malformed processing call (exactly one malformation, F3).
#[derive(Clone, Debug, Serialize, Deserialize, PartialEq)]
pub enum BadCall {
    /// number of input channels = channels + delta (delta != 0), or 0 if `zero`
    InChannels { delta: i8, zero: bool },
    OutChannels { delta: i8, zero: bool },
    MaskLen { delta: i8, zero: bool },
    /// active input channel `ch % active` shorter than required by `missing` (clipped to 1..=need)
    InShort { ch: u8, missing: u32 },
    OutShort { ch: u8, missing: u32 },
    /// fault, not a malformed call on this instance: a throw-away resampler of the same sample type makes a
    /// partial call on this thread whose user buffer type panics in `as_mut()`/`as_ref()`; the unwinding is
    /// caught by the caller. Nothing of it may reach any other instance on the thread.
    ForeignUnwind { seed: u32 },
}

/// Control value classes for F4.
#[derive(Clone, Debug, Serialize, Deserialize, PartialEq)]
pub enum CtlVal {
    /// in-range relative factor, applied as absolute (orig*rel) or relative
    Rel(f64),
    /// exact upper bound moved by k ulps (k may be negative, 0 = exact bound)
    UpperUlp(i8),
    LowerUlp(i8),
    Nan,
    PosInf,
    NegInf,
    Zero,
    NegZero,
    Neg(f64),
    Subnormal,
    Huge,
    /// arbitrary absolute value outside the range by a factor
    Outside(f64),
    /// exact value by bit pattern (used by twins: "the equivalent absolute call")
    Bits(u64),
}

#[derive(Clone, Debug, Serialize, Deserialize, PartialEq)]
pub enum ChunkVal {
    Zero,
    One,
    Max,
    MaxPlus1,
    UsizeMax,
    N(usize),
    /// 2^pow + delta (truncating casts: 2^32 + 1 looks like 1 after `as u32`)
    Pow2Plus { pow: u8, delta: usize },
}

#[derive(Clone, Debug, Serialize, Deserialize, PartialEq)]
pub enum Op {
    /// one processing call through `path`.  `valid`: number of real frames supplied
    /// (None = a full chunk; Some(k) = k frames then zeros; for partial paths Some(0) = `None` input).
    /// `ragged` != 0: the channels get different numbers of real frames (some shorter, and on partial paths some
    /// longer than needed) as a deterministic function of (ragged, channel).
    Process {
        path: Path,
        valid: Option<u32>,
        slack_in: u16,
        slack_out: u16,
        slices: bool,
        #[serde(default)]
        ragged: u8,
        /// some channels are given the *same slice object* as their predecessor (aliased stereo / dual mono); the
        /// twin gets equal data in separate buffers
        #[serde(default)]
        alias: bool,
    },
    /// in-range ratio change. `rel` is relative to the original ratio.
    SetRatio { rel: f64, ramp: bool, relative_api: bool },
    /// valid chunk-size change (n clipped to 1..=max at execution)
    SetChunk { n: usize },
    Reset,
    Bad { call: BadCall, path: Path },
    BadRatio { val: CtlVal, ramp: bool, relative_api: bool },
    BadChunk { val: ChunkVal },
    /// C18 only
    Migrate { to: u8 },
    /// the caller starts passing another active-channel mask from the next call on (None = no mask argument)
    SetMask { mask: Option<Vec<bool>> },
}

impl Op {
    pub fn process() -> Op {
        Op::Process { path: Path::IntoBuffer, valid: None, slack_in: 0, slack_out: 0, slices: false, ragged: 0, alias: false }
    }
    pub fn kind_code(&self) -> u8 {
        match self {
            Op::Process { valid: None, .. } => 0,
            Op::Process { valid: Some(0), .. } => 1,
            Op::Process { .. } => 2,
            Op::SetRatio { ramp: false, .. } => 3,
            Op::SetRatio { ramp: true, .. } => 4,
            Op::SetChunk { .. } => 5,
            Op::Reset => 6,
            Op::Bad { .. } => 7,
            Op::BadRatio { .. } => 8,
            Op::BadChunk { .. } => 9,
            Op::Migrate { .. } => 10,
            Op::SetMask { .. } => 11,
        }
    }
}

/// How the twin execution(s) differ from the SUT; interpreted by the property's driver.
#[derive(Clone, Debug, Serialize, Deserialize, PartialEq)]
pub enum Twin {
    None,
    /// C05: second config + per-run chunk schedules; both runs consume `frames` input frames.
    /// ratio steps: (position, rel) applied when the aligned counter reaches `position`.
    Chunking {
        config_b: Config,
        frames: u64,
        setchunk_a: Vec<usize>,
        setchunk_b: Vec<usize>,
        steps: Vec<(u64, f64)>,
    },
    /// C10: ops[..prefix] then Reset on the SUT; twin is fresh; both then run ops[prefix..]
    Reset { prefix: usize },
    /// C11: n mono twins
    Mono,
    /// C12/C13: twin skips the ops whose indices are listed
    Skip { idx: Vec<usize> },
    /// C12 accepted values: twin replaces op i by the equivalent absolute call
    /// C16: twin uses another path at the listed op indices
    Paths { idx: Vec<usize>, paths: Vec<Path> },
    /// C17: the other sample type
    OtherType,
    /// C15: list of (kernel, cpu_mask) variants to run
    Kernels { variants: Vec<(Kernel, u8)> },
    /// C18: instances (config, signal, ops) and the schedule
    /// `ctor_faults`: (step, thread, kind) -- at that step the thread makes a constructor call that fails
    /// (returns Err or panics with capacity overflow) while the other instances are alive
    Threads {
        threads: u8,
        instances: Vec<InstanceSpec>,
        schedule: Vec<(u8, u8, i8)>,
        #[serde(default)]
        ctor_faults: Vec<(u32, u8, u8)>,
        /// stack size of each caller thread in KiB (0 or missing = the platform default)
        #[serde(default)]
        stacks_kb: Vec<u16>,
    },
}

#[derive(Clone, Debug, Serialize, Deserialize, PartialEq)]
pub struct InstanceSpec {
    pub config: Config,
    pub signal: Signal,
    pub ops: Vec<Op>,
    /// thread the instance is constructed on
    pub home: u8,
    /// number of scheduled steps after which the instance is constructed (0 = before the first step)
    #[serde(default)]
    pub born: u32,
}

#[derive(Clone, Debug, Serialize, Deserialize, PartialEq)]
pub struct Scenario {
    pub property: String,
    pub seed: u64,
    pub profile: String,
    pub config: Config,
    pub signal: Signal,
    pub ops: Vec<Op>,
    pub twin: Twin,
    /// simulated seconds covered by the discrete-event profile (0 otherwise)
    #[serde(default)]
    pub sim_seconds: f64,
    /// the last op is executed this many more times (streams of tens of millions of calls are not written out)
    #[serde(default)]
    pub repeat: u64,
}
