//! Adapter between the scenario language and the real rubato types.  Everything below
//! `build()` is real rubato code; the only stand-ins are the two harness `SincInterpolator`
//! implementations (probe, cross-check) which go in through the public
//! `new_with_interpolator` constructors.

use crate::scenario::{Config, Kernel, Kind};
use rubato::sinc_interpolator::sinc_interpolator_avx::AvxInterpolator;
use rubato::sinc_interpolator::sinc_interpolator_sse::SseInterpolator;
use rubato::sinc_interpolator::{ScalarInterpolator, SincInterpolator};
use rubato::{
    FastFixedIn, FastFixedOut, FftFixedIn, FftFixedInOut, FftFixedOut, PolynomialDegree,
    ResampleResult, Resampler, ResamplerConstructionError, Sample, SincFixedIn, SincFixedOut,
    SincInterpolationParameters, SincInterpolationType, VecResampler, WindowFunction,
};
use std::sync::{Arc, Mutex};

pub trait Flt: Sample + PartialOrd + std::fmt::Debug + Send + Sync + 'static {
    const IS_F32: bool;
    const EPS: f64;
    fn from64(x: f64) -> Self;
    fn to64(self) -> f64;
    fn bits(self) -> u64;
    fn sentinel() -> Self;
    fn is_sentinel(self) -> bool {
        self.bits() == Self::sentinel().bits()
    }
}

impl Flt for f32 {
    const IS_F32: bool = true;
    const EPS: f64 = f32::EPSILON as f64;
    fn from64(x: f64) -> Self {
        x as f32
    }
    fn to64(self) -> f64 {
        self as f64
    }
    fn bits(self) -> u64 {
        self.to_bits() as u64
    }
    fn sentinel() -> Self {
        f32::from_bits(0x7fc5_a5a5)
    }
}

impl Flt for f64 {
    const IS_F32: bool = false;
    const EPS: f64 = f64::EPSILON;
    fn from64(x: f64) -> Self {
        x
    }
    fn to64(self) -> f64 {
        self
    }
    fn bits(self) -> u64 {
        self.to_bits()
    }
    fn sentinel() -> Self {
        f64::from_bits(0x7ff8_5a5a_a5a5_5a5a)
    }
}

/// Object-safe view of a resampler with every entry path the scenario language can name.
pub trait Dyn<T: Flt>: Send {
    fn pib_vec(&mut self, i: &[Vec<T>], o: &mut [Vec<T>], m: Option<&[bool]>) -> ResampleResult<(usize, usize)>;
    fn pib_slices(&mut self, i: &[&[T]], o: &mut [&mut [T]], m: Option<&[bool]>) -> ResampleResult<(usize, usize)>;
    fn wrapper_vec(&mut self, i: &[Vec<T>], m: Option<&[bool]>) -> ResampleResult<Vec<Vec<T>>>;
    fn wrapper_slices(&mut self, i: &[&[T]], m: Option<&[bool]>) -> ResampleResult<Vec<Vec<T>>>;
    fn partial_into_vec(&mut self, i: Option<&[Vec<T>]>, o: &mut [Vec<T>], m: Option<&[bool]>) -> ResampleResult<(usize, usize)>;
    fn partial_into_slices(&mut self, i: Option<&[&[T]]>, o: &mut [&mut [T]], m: Option<&[bool]>) -> ResampleResult<(usize, usize)>;
    fn partial_wrapper_vec(&mut self, i: Option<&[Vec<T>]>, m: Option<&[bool]>) -> ResampleResult<Vec<Vec<T>>>;
    // through Box<dyn VecResampler<T>>-style dynamic dispatch
    fn v_pib(&mut self, i: &[Vec<T>], o: &mut [Vec<T>], m: Option<&[bool]>) -> ResampleResult<(usize, usize)>;
    fn v_wrapper(&mut self, i: &[Vec<T>], m: Option<&[bool]>) -> ResampleResult<Vec<Vec<T>>>;
    fn v_partial_into(&mut self, i: Option<&[Vec<T>]>, o: &mut [Vec<T>], m: Option<&[bool]>) -> ResampleResult<(usize, usize)>;
    fn v_partial_wrapper(&mut self, i: Option<&[Vec<T>]>, m: Option<&[bool]>) -> ResampleResult<Vec<Vec<T>>>;
    fn v_getters(&self) -> [usize; 6];

    fn in_max(&self) -> usize;
    fn in_next(&self) -> usize;
    fn out_max(&self) -> usize;
    fn out_next(&self) -> usize;
    fn delay(&self) -> usize;
    fn channels(&self) -> usize;
    fn set_ratio(&mut self, r: f64, ramp: bool) -> ResampleResult<()>;
    fn set_ratio_rel(&mut self, r: f64, ramp: bool) -> ResampleResult<()>;
    fn v_set_ratio(&mut self, r: f64, ramp: bool) -> ResampleResult<()>;
    fn v_set_ratio_rel(&mut self, r: f64, ramp: bool) -> ResampleResult<()>;
    fn set_chunk(&mut self, n: usize) -> ResampleResult<()>;
    fn do_reset(&mut self);
    fn in_alloc(&self, filled: bool) -> Vec<Vec<T>>;
    fn out_alloc(&self, filled: bool) -> Vec<Vec<T>>;
    fn v_in_alloc(&self, filled: bool) -> Vec<Vec<T>>;
    fn v_out_alloc(&self, filled: bool) -> Vec<Vec<T>>;
}

impl<T: Flt, R: Resampler<T> + 'static> Dyn<T> for R {
    fn pib_vec(&mut self, i: &[Vec<T>], o: &mut [Vec<T>], m: Option<&[bool]>) -> ResampleResult<(usize, usize)> {
        Resampler::process_into_buffer(self, i, o, m)
    }
    fn pib_slices(&mut self, i: &[&[T]], o: &mut [&mut [T]], m: Option<&[bool]>) -> ResampleResult<(usize, usize)> {
        Resampler::process_into_buffer(self, i, o, m)
    }
    fn wrapper_vec(&mut self, i: &[Vec<T>], m: Option<&[bool]>) -> ResampleResult<Vec<Vec<T>>> {
        Resampler::process(self, i, m)
    }
    fn wrapper_slices(&mut self, i: &[&[T]], m: Option<&[bool]>) -> ResampleResult<Vec<Vec<T>>> {
        Resampler::process(self, i, m)
    }
    fn partial_into_vec(&mut self, i: Option<&[Vec<T>]>, o: &mut [Vec<T>], m: Option<&[bool]>) -> ResampleResult<(usize, usize)> {
        Resampler::process_partial_into_buffer(self, i, o, m)
    }
    fn partial_into_slices(&mut self, i: Option<&[&[T]]>, o: &mut [&mut [T]], m: Option<&[bool]>) -> ResampleResult<(usize, usize)> {
        Resampler::process_partial_into_buffer(self, i, o, m)
    }
    fn partial_wrapper_vec(&mut self, i: Option<&[Vec<T>]>, m: Option<&[bool]>) -> ResampleResult<Vec<Vec<T>>> {
        Resampler::process_partial(self, i, m)
    }
    fn v_pib(&mut self, i: &[Vec<T>], o: &mut [Vec<T>], m: Option<&[bool]>) -> ResampleResult<(usize, usize)> {
        let v: &mut dyn VecResampler<T> = self;
        v.process_into_buffer(i, o, m)
    }
    fn v_wrapper(&mut self, i: &[Vec<T>], m: Option<&[bool]>) -> ResampleResult<Vec<Vec<T>>> {
        let v: &mut dyn VecResampler<T> = self;
        v.process(i, m)
    }
    fn v_partial_into(&mut self, i: Option<&[Vec<T>]>, o: &mut [Vec<T>], m: Option<&[bool]>) -> ResampleResult<(usize, usize)> {
        let v: &mut dyn VecResampler<T> = self;
        v.process_partial_into_buffer(i, o, m)
    }
    fn v_partial_wrapper(&mut self, i: Option<&[Vec<T>]>, m: Option<&[bool]>) -> ResampleResult<Vec<Vec<T>>> {
        let v: &mut dyn VecResampler<T> = self;
        v.process_partial(i, m)
    }
    fn v_getters(&self) -> [usize; 6] {
        let v: &dyn VecResampler<T> = self;
        [
            v.input_frames_max(),
            v.input_frames_next(),
            v.output_frames_max(),
            v.output_frames_next(),
            v.output_delay(),
            v.nbr_channels(),
        ]
    }
    fn in_max(&self) -> usize {
        Resampler::input_frames_max(self)
    }
    fn in_next(&self) -> usize {
        Resampler::input_frames_next(self)
    }
    fn out_max(&self) -> usize {
        Resampler::output_frames_max(self)
    }
    fn out_next(&self) -> usize {
        Resampler::output_frames_next(self)
    }
    fn delay(&self) -> usize {
        Resampler::output_delay(self)
    }
    fn channels(&self) -> usize {
        Resampler::nbr_channels(self)
    }
    fn set_ratio(&mut self, r: f64, ramp: bool) -> ResampleResult<()> {
        Resampler::set_resample_ratio(self, r, ramp)
    }
    fn set_ratio_rel(&mut self, r: f64, ramp: bool) -> ResampleResult<()> {
        Resampler::set_resample_ratio_relative(self, r, ramp)
    }
    fn v_set_ratio(&mut self, r: f64, ramp: bool) -> ResampleResult<()> {
        let v: &mut dyn VecResampler<T> = self;
        v.set_resample_ratio(r, ramp)
    }
    fn v_set_ratio_rel(&mut self, r: f64, ramp: bool) -> ResampleResult<()> {
        let v: &mut dyn VecResampler<T> = self;
        v.set_resample_ratio_relative(r, ramp)
    }
    fn set_chunk(&mut self, n: usize) -> ResampleResult<()> {
        Resampler::set_chunk_size(self, n)
    }
    fn do_reset(&mut self) {
        Resampler::reset(self)
    }
    fn in_alloc(&self, filled: bool) -> Vec<Vec<T>> {
        Resampler::input_buffer_allocate(self, filled)
    }
    fn out_alloc(&self, filled: bool) -> Vec<Vec<T>> {
        Resampler::output_buffer_allocate(self, filled)
    }
    fn v_in_alloc(&self, filled: bool) -> Vec<Vec<T>> {
        let v: &dyn VecResampler<T> = self;
        v.input_buffer_allocate(filled)
    }
    fn v_out_alloc(&self, filled: bool) -> Vec<Vec<T>> {
        let v: &dyn VecResampler<T> = self;
        v.output_buffer_allocate(filled)
    }
}

pub fn window_of(w: u8) -> WindowFunction {
    match w % 6 {
        0 => WindowFunction::Blackman,
        1 => WindowFunction::Blackman2,
        2 => WindowFunction::BlackmanHarris,
        3 => WindowFunction::BlackmanHarris2,
        4 => WindowFunction::Hann,
        _ => WindowFunction::Hann2,
    }
}

pub fn interp_of(i: u8) -> SincInterpolationType {
    match i % 4 {
        0 => SincInterpolationType::Nearest,
        1 => SincInterpolationType::Linear,
        2 => SincInterpolationType::Quadratic,
        _ => SincInterpolationType::Cubic,
    }
}

pub fn degree_of(d: u8) -> PolynomialDegree {
    match d % 5 {
        0 => PolynomialDegree::Nearest,
        1 => PolynomialDegree::Linear,
        2 => PolynomialDegree::Cubic,
        3 => PolynomialDegree::Quintic,
        _ => PolynomialDegree::Septic,
    }
}

// ---------------------------------------------------------------------------------------
// Probe interpolator (position mode)
// ---------------------------------------------------------------------------------------

#[derive(Default, Debug, Clone)]
pub struct ProbeLog {
    pub calls: u64,
    /// first window that was not "zeros then consecutive stream samples"
    pub bad_window: Option<String>,
    pub bad_args: Option<String>,
    pub poisoned: u64,
}

/// Linear probe: returns the linear interpolation of `wave` at the instant the real
/// sub-filter `subindex` is centred on, i.e. `index + len/2 - 1 + (subindex+1)/n`.
/// With the index signal the resampler's output therefore *is* its evaluation instant.
/// It also checks that the window it is asked to read holds consecutive stream samples
/// (optionally preceded by the zero pre-roll): anything else is stale or skipped storage.
/// Offset added to a point whose window holds anything but consecutive stream samples. The spacing oracle's
/// tolerance is a few ulps of the stream position p (~1e-14 * p). A position that sits exactly on a grid point
/// gives the neighbouring (possibly stale) point a weight that is pure rounding noise (~1e-12 at most): times
/// 0.01 that stays inside the tolerance, while any real weight (>= 1e-9) throws the recovered instant out of it.
pub const POISON: f64 = 1.0e-2;

pub struct ProbeInterp {
    pub len: usize,
    pub n: usize,
    pub check_window: bool,
    pub log: Arc<Mutex<ProbeLog>>,
}

impl<T: Flt> SincInterpolator<T> for ProbeInterp {
    fn get_sinc_interpolated(&self, wave: &[T], index: usize, subindex: usize) -> T {
        let mut log = self.log.lock().unwrap();
        log.calls += 1;
        if index + self.len > wave.len() || subindex >= self.n {
            // like the real kernels: invalid arguments are a panic
            drop(log);
            panic!("Tried to interpolate for index {} + len {} with wave.len() {}, or to use sinc subindex {}, max is {}", index, self.len, wave.len(), subindex, self.n.saturating_sub(1));
        }
        if self.check_window && log.bad_window.is_none() {
            let w = &wave[index..index + self.len];
            let mut started = false;
            for k in 0..self.len - 1 {
                let a = w[k].to64();
                let b = w[k + 1].to64();
                let ok = if !started && a == 0.0 {
                    // still in the zero pre-roll: next is zero or any positive sample (start of stream after reset)
                    if b != 0.0 {
                        started = true;
                    }
                    b == 0.0 || b >= 1.0
                } else {
                    started = true;
                    b == a + 1.0
                };
                if !ok {
                    log.bad_window = Some(format!(
                        "window index {} offset {}: {} followed by {}",
                        index, k, a, b
                    ));
                    break;
                }
            }
        }
        let poisoned = self.check_window && {
            // is *this* window bad (the log keeps only the first bad one)
            let w = &wave[index..index + self.len];
            let mut started = false;
            let mut bad = false;
            for k in 0..self.len - 1 {
                let a = w[k].to64();
                let b = w[k + 1].to64();
                let ok = if !started && a == 0.0 {
                    if b != 0.0 {
                        started = true;
                    }
                    b == 0.0 || b >= 1.0
                } else {
                    started = true;
                    b == a + 1.0
                };
                if !ok {
                    bad = true;
                    break;
                }
            }
            bad
        };
        if poisoned {
            log.poisoned += 1;
        }
        let mut i0 = index + self.len / 2 - 1;
        let mut num = subindex + 1;
        if num >= self.n {
            num -= self.n;
            i0 += 1;
        }
        let frac = num as f64 / self.n as f64;
        let a = wave[i0].to64();
        let b = wave[i0 + 1].to64();
        // a window holding anything but consecutive stream samples poisons the point: if the point has a
        // non-zero weight in the output frame, the recovered instant is thrown far off the line
        T::from64(a + frac * (b - a) + if poisoned { POISON } else { 0.0 })
    }
    fn len(&self) -> usize {
        self.len
    }
    fn nbr_sincs(&self) -> usize {
        self.n
    }
}

// ---------------------------------------------------------------------------------------
// Cross-check interpolator (C15 oracle 2 and 3)
// ---------------------------------------------------------------------------------------

#[derive(Default, Debug, Clone)]
pub struct CrossLog {
    pub calls: u64,
    pub compared: u64,
    pub bound_skipped: u64,
    pub embed_checks: u64,
    /// worst |ka-kb| / bound seen
    pub worst: f64,
    pub violation: Option<String>,
    pub kernels: Vec<String>,
}

pub struct CrossInterp<T: Flt> {
    pub len: usize,
    pub n: usize,
    pub kernels: Vec<(&'static str, Box<dyn SincInterpolator<T>>)>,
    /// recovered taps per subindex (through the scalar kernel's public interface)
    pub taps: Mutex<(Vec<Option<Vec<f64>>>, u64)>,
    pub log: Arc<Mutex<CrossLog>>,
    pub salt: u64,
}

impl<T: Flt> CrossInterp<T> {
    fn taps_for(&self, sub: usize) -> Option<Vec<f64>> {
        let mut g = self.taps.lock().unwrap();
        if let Some(t) = &g.0[sub] {
            return Some(t.clone());
        }
        let cost = (self.len * self.len) as u64;
        if g.1 + cost > 400_000_000 {
            return None;
        }
        g.1 += cost;
        let scalar = &self.kernels[0].1;
        let mut e = vec![T::zero(); self.len + 1];
        let mut t = Vec::with_capacity(self.len);
        for k in 0..self.len {
            e[k] = T::one();
            t.push(scalar.get_sinc_interpolated(&e, 0, sub).to64());
            e[k] = T::zero();
        }
        g.0[sub] = Some(t.clone());
        Some(t)
    }
}

impl<T: Flt> SincInterpolator<T> for CrossInterp<T> {
    fn get_sinc_interpolated(&self, wave: &[T], index: usize, subindex: usize) -> T {
        let vals: Vec<T> = self
            .kernels
            .iter()
            .map(|(_, k)| k.get_sinc_interpolated(wave, index, subindex))
            .collect();
        let mut log = self.log.lock().unwrap();
        log.calls += 1;
        let callno = log.calls;
        if log.violation.is_some() {
            return vals[0];
        }
        let w = &wave[index..index + self.len];
        match self.taps_for(subindex) {
            Some(h) => {
                let s: f64 = w.iter().zip(h.iter()).map(|(a, b)| (a.to64() * b).abs()).sum();
                // relative summation-order bound + gradual-underflow quantum per operation
                let denorm = if T::IS_F32 { f32::from_bits(1) as f64 } else { f64::from_bits(1) };
                let bound = (self.len.max(16) as f64) * (T::EPS / 2.0) * s + 2.0 * self.len as f64 * denorm;
                log.compared += 1;
                for a in 1..vals.len() {
                    let (va, v0) = (vals[a].to64(), vals[0].to64());
                    if va.is_nan() && v0.is_nan() {
                        continue;
                    }
                    let d = (va - v0).abs();
                    let ok = if s.is_nan() || s.is_infinite() { va.is_nan() == v0.is_nan() && (va.is_nan() || va.is_infinite() == v0.is_infinite()) } else if bound == 0.0 { d == 0.0 } else { d <= bound };
                    if bound > 0.0 {
                        let r = d / bound;
                        if r > log.worst {
                            log.worst = r;
                        }
                    }
                    if !ok {
                        log.violation = Some(format!(
                            "kernel {} returned {:e}, {} returned {:e}; |diff| {:e} > bound {:e} (len {}, index {}, subindex {})",
                            self.kernels[a].0,
                            vals[a].to64(),
                            self.kernels[0].0,
                            vals[0].to64(),
                            d,
                            bound,
                            self.len,
                            index,
                            subindex
                        ));
                        return vals[0];
                    }
                }
            }
            None => log.bound_skipped += 1,
        }
        // oracle 3: "reads nothing else" -- sampled 1 in 64 calls
        if crate::rng::mix(self.salt ^ callno) % 64 == 0 {
            log.embed_checks += 1;
            let off = (crate::rng::mix(self.salt ^ callno ^ 0x55) % 8) as usize;
            let mut emb = vec![T::from64(f64::NAN); off + self.len + 1 + 8];
            emb[off..off + self.len].copy_from_slice(w);
            // note: the kernels require index + len < wave.len(), one spare element follows; it is NaN
            for (ki, (name, k)) in self.kernels.iter().enumerate() {
                let v = k.get_sinc_interpolated(&emb, off, subindex);
                if v.bits() != vals[ki].bits() && !(v.to64().is_nan() && vals[ki].to64().is_nan()) {
                    log.violation = Some(format!(
                        "kernel {} on the same window embedded at offset {} among NaNs returned {:e} instead of {:e} (reads outside its window) len {} subindex {}",
                        name,
                        off,
                        v.to64(),
                        vals[ki].to64(),
                        self.len,
                        subindex
                    ));
                    break;
                }
            }
        }
        vals[0]
    }
    fn len(&self) -> usize {
        self.len
    }
    fn nbr_sincs(&self) -> usize {
        self.n
    }
}

// ---------------------------------------------------------------------------------------
// Construction
// ---------------------------------------------------------------------------------------

pub struct Built<T: Flt> {
    pub inst: Box<dyn Dyn<T>>,
    pub probe: Option<Arc<Mutex<ProbeLog>>>,
    pub cross: Option<Arc<Mutex<CrossLog>>>,
}

pub fn have_avx() -> bool {
    is_x86_feature_detected!("avx") && is_x86_feature_detected!("fma")
}
pub fn have_sse() -> bool {
    is_x86_feature_detected!("sse3")
}

/// The parameter derivation `make_interpolator` applies before building a kernel.
pub fn derived_kernel_params(cfg: &Config) -> (usize, f32) {
    let sinc_len = cfg.sinc_len_rounded();
    let f_cutoff = if cfg.ratio >= 1.0 { cfg.f_cutoff } else { cfg.f_cutoff * cfg.ratio as f32 };
    (sinc_len, f_cutoff)
}

fn forced_kernel<T: Flt>(cfg: &Config, which: Kernel) -> Option<Box<dyn SincInterpolator<T>>> {
    let (len, fc) = derived_kernel_params(cfg);
    let w = window_of(cfg.window);
    match which {
        Kernel::Avx => AvxInterpolator::<T>::new(len, cfg.oversampling, fc, w)
            .ok()
            .map(|k| Box::new(k) as Box<dyn SincInterpolator<T>>),
        Kernel::Sse => SseInterpolator::<T>::new(len, cfg.oversampling, fc, w)
            .ok()
            .map(|k| Box::new(k) as Box<dyn SincInterpolator<T>>),
        Kernel::Scalar => Some(Box::new(ScalarInterpolator::<T>::new(len, cfg.oversampling, fc, w))),
        _ => None,
    }
}

pub fn build<T: Flt>(cfg: &Config) -> Result<Built<T>, ResamplerConstructionError> {
    let mut probe = None;
    let mut cross = None;
    let inst: Box<dyn Dyn<T>> = match cfg.kind {
        Kind::SincIn | Kind::SincOut => {
            let custom: Option<Box<dyn SincInterpolator<T>>> = match cfg.kernel {
                Kernel::Auto => None,
                Kernel::Avx | Kernel::Sse | Kernel::Scalar => {
                    // fall back to scalar if the host lacks the feature (recorded by the caller)
                    Some(forced_kernel::<T>(cfg, cfg.kernel).unwrap_or_else(|| forced_kernel::<T>(cfg, Kernel::Scalar).unwrap()))
                }
                Kernel::Probe => {
                    let log = Arc::new(Mutex::new(ProbeLog::default()));
                    probe = Some(log.clone());
                    Some(Box::new(ProbeInterp { len: cfg.sinc_len_rounded(), n: cfg.oversampling, check_window: true, log }))
                }
                Kernel::Custom => {
                    let log = Arc::new(Mutex::new(ProbeLog::default()));
                    Some(Box::new(ProbeInterp { len: cfg.sinc_len.max(2), n: cfg.oversampling, check_window: false, log }))
                }
                Kernel::Cross => {
                    let log = Arc::new(Mutex::new(CrossLog::default()));
                    let mut kernels: Vec<(&'static str, Box<dyn SincInterpolator<T>>)> = Vec::new();
                    kernels.push(("scalar", forced_kernel::<T>(cfg, Kernel::Scalar).unwrap()));
                    if let Some(k) = forced_kernel::<T>(cfg, Kernel::Sse) {
                        kernels.push(("sse", k));
                    }
                    if let Some(k) = forced_kernel::<T>(cfg, Kernel::Avx) {
                        kernels.push(("avx", k));
                    }
                    log.lock().unwrap().kernels = kernels.iter().map(|k| k.0.to_string()).collect();
                    cross = Some(log.clone());
                    let len = cfg.sinc_len_rounded();
                    Some(Box::new(CrossInterp {
                        len,
                        n: cfg.oversampling,
                        kernels,
                        taps: Mutex::new((vec![None; cfg.oversampling], 0)),
                        log,
                        salt: crate::rng::mix(cfg.chunk as u64 ^ ((len as u64) << 20)),
                    }))
                }
            };
            match custom {
                Some(k) => {
                    if cfg.kind == Kind::SincIn {
                        Box::new(SincFixedIn::<T>::new_with_interpolator(cfg.ratio, cfg.max_rel, interp_of(cfg.interp), k, cfg.chunk, cfg.channels)?)
                    } else {
                        Box::new(SincFixedOut::<T>::new_with_interpolator(cfg.ratio, cfg.max_rel, interp_of(cfg.interp), k, cfg.chunk, cfg.channels)?)
                    }
                }
                None => {
                    let params = SincInterpolationParameters {
                        sinc_len: cfg.sinc_len,
                        f_cutoff: cfg.f_cutoff,
                        oversampling_factor: cfg.oversampling,
                        interpolation: interp_of(cfg.interp),
                        window: window_of(cfg.window),
                    };
                    rubato::verif_set_cpu_mask(cfg.cpu_mask);
                    let r: Result<Box<dyn Dyn<T>>, ResamplerConstructionError> = if cfg.kind == Kind::SincIn {
                        SincFixedIn::<T>::new(cfg.ratio, cfg.max_rel, params, cfg.chunk, cfg.channels).map(|x| Box::new(x) as Box<dyn Dyn<T>>)
                    } else {
                        SincFixedOut::<T>::new(cfg.ratio, cfg.max_rel, params, cfg.chunk, cfg.channels).map(|x| Box::new(x) as Box<dyn Dyn<T>>)
                    };
                    rubato::verif_set_cpu_mask(0);
                    r?
                }
            }
        }
        Kind::FastIn => Box::new(FastFixedIn::<T>::new(cfg.ratio, cfg.max_rel, degree_of(cfg.degree), cfg.chunk, cfg.channels)?),
        Kind::FastOut => Box::new(FastFixedOut::<T>::new(cfg.ratio, cfg.max_rel, degree_of(cfg.degree), cfg.chunk, cfg.channels)?),
        Kind::FftIn => Box::new(FftFixedIn::<T>::new(cfg.rate_in, cfg.rate_out, cfg.chunk, cfg.sub_chunks, cfg.channels)?),
        Kind::FftOut => Box::new(FftFixedOut::<T>::new(cfg.rate_in, cfg.rate_out, cfg.chunk, cfg.sub_chunks, cfg.channels)?),
        Kind::FftInOut => Box::new(FftFixedInOut::<T>::new(cfg.rate_in, cfg.rate_out, cfg.chunk, cfg.channels)?),
    };
    Ok(Built { inst, probe, cross })
}


/// Constructor outcome with comparable error payloads (C13 constructor faults).
#[derive(Debug, Clone, PartialEq)]
pub enum CErr {
    InvalidSampleRate { input: usize, output: usize },
    InvalidRelativeRatio(u64),
    InvalidRatio(u64),
}

pub fn construct_result<T: Flt>(cfg: &Config) -> Result<(), CErr> {
    match build::<T>(cfg) {
        Ok(_) => Ok(()),
        Err(ResamplerConstructionError::InvalidSampleRate { input, output }) => Err(CErr::InvalidSampleRate { input, output }),
        Err(ResamplerConstructionError::InvalidRelativeRatio(x)) => Err(CErr::InvalidRelativeRatio(x.to_bits())),
        Err(ResamplerConstructionError::InvalidRatio(x)) => Err(CErr::InvalidRatio(x.to_bits())),
    }
}
