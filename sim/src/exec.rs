//! Executor: interprets an op list against one real resampler instance and records a trace.
//! Generic per-step invariants (C03 completion/finite, C04 counts/sentinels, C09 heap,
//! C11 masked-untouched) are evaluated here because they need the live buffers; everything
//! that compares executions lives in the property drivers (oracle.rs).

use crate::alloc;
use crate::scenario::*;
use crate::sut::{build, CrossLog, Dyn, Flt, ProbeLog};
use rubato::ResampleError;
use serde::Serialize;
use std::cell::RefCell;
use std::panic::{catch_unwind, AssertUnwindSafe};
use std::sync::{Arc, Mutex};

thread_local! {
    pub static LAST_PANIC: RefCell<String> = const { RefCell::new(String::new()) };
}

pub static VERBOSE_PANIC: std::sync::atomic::AtomicBool = std::sync::atomic::AtomicBool::new(false);

pub fn install_panic_hook() {
    if std::env::var("RSIM_VERBOSE_PANIC").is_ok() {
        VERBOSE_PANIC.store(true, std::sync::atomic::Ordering::Relaxed);
    }
    std::panic::set_hook(Box::new(|info| {
        let loc = info.location().map(|l| format!("{}:{}", l.file(), l.line())).unwrap_or_default();
        let msg = if let Some(s) = info.payload().downcast_ref::<&str>() {
            s.to_string()
        } else if let Some(s) = info.payload().downcast_ref::<String>() {
            s.clone()
        } else {
            "<non-string panic>".to_string()
        };
        if VERBOSE_PANIC.load(std::sync::atomic::Ordering::Relaxed) {
            eprintln!("PANIC: {} @ {}", msg, loc);
        }
        let _ = LAST_PANIC.try_with(|p| *p.borrow_mut() = format!("{} @ {}", msg, loc));
    }));
}

#[derive(Debug, Clone, Copy, PartialEq, Eq, Serialize, Default, Hash)]
pub struct Getters {
    pub in_max: usize,
    pub in_next: usize,
    pub out_max: usize,
    pub out_next: usize,
    pub delay: usize,
    pub channels: usize,
}

/// Mirror of `ResampleError` with equality.
#[derive(Debug, Clone, PartialEq, Serialize)]
pub enum E {
    RatioOutOfBounds { provided: u64, original: u64, max_relative_ratio: u64 },
    SyncNotAdjustable,
    WrongNumberOfInputChannels { expected: usize, actual: usize },
    WrongNumberOfOutputChannels { expected: usize, actual: usize },
    WrongNumberOfMaskChannels { expected: usize, actual: usize },
    InsufficientInputBufferSize { channel: usize, expected: usize, actual: usize },
    InsufficientOutputBufferSize { channel: usize, expected: usize, actual: usize },
    InvalidChunkSize { max: usize, requested: usize },
    ChunkSizeNotAdjustable,
}

impl E {
    pub fn from(e: &ResampleError) -> E {
        match *e {
            ResampleError::RatioOutOfBounds { provided, original, max_relative_ratio } => E::RatioOutOfBounds {
                provided: provided.to_bits(),
                original: original.to_bits(),
                max_relative_ratio: max_relative_ratio.to_bits(),
            },
            ResampleError::SyncNotAdjustable => E::SyncNotAdjustable,
            ResampleError::WrongNumberOfInputChannels { expected, actual } => E::WrongNumberOfInputChannels { expected, actual },
            ResampleError::WrongNumberOfOutputChannels { expected, actual } => E::WrongNumberOfOutputChannels { expected, actual },
            ResampleError::WrongNumberOfMaskChannels { expected, actual } => E::WrongNumberOfMaskChannels { expected, actual },
            ResampleError::InsufficientInputBufferSize { channel, expected, actual } => E::InsufficientInputBufferSize { channel, expected, actual },
            ResampleError::InsufficientOutputBufferSize { channel, expected, actual } => E::InsufficientOutputBufferSize { channel, expected, actual },
            ResampleError::InvalidChunkSize { max, requested } => E::InvalidChunkSize { max, requested },
            ResampleError::ChunkSizeNotAdjustable => E::ChunkSizeNotAdjustable,
        }
    }
    pub fn variant(&self) -> &'static str {
        match self {
            E::RatioOutOfBounds { .. } => "RatioOutOfBounds",
            E::SyncNotAdjustable => "SyncNotAdjustable",
            E::WrongNumberOfInputChannels { .. } => "WrongNumberOfInputChannels",
            E::WrongNumberOfOutputChannels { .. } => "WrongNumberOfOutputChannels",
            E::WrongNumberOfMaskChannels { .. } => "WrongNumberOfMaskChannels",
            E::InsufficientInputBufferSize { .. } => "InsufficientInputBufferSize",
            E::InsufficientOutputBufferSize { .. } => "InsufficientOutputBufferSize",
            E::InvalidChunkSize { .. } => "InvalidChunkSize",
            E::ChunkSizeNotAdjustable => "ChunkSizeNotAdjustable",
        }
    }
}

#[derive(Debug, Clone, PartialEq, Serialize)]
pub enum StepRes {
    Proc { n_in: usize, n_out: usize },
    ProcErr(E),
    CtlOk,
    CtlErr(E),
    Reset,
    Panic(String),
    Skipped,
}

#[derive(Debug, Clone, Serialize)]
pub struct StepRec {
    pub op: usize,
    pub code: u8,
    pub pre: Getters,
    pub post: Getters,
    pub res: StepRes,
    /// input stream position / output frames before this step
    pub cursor: u64,
    pub out_before: u64,
    /// real frames supplied (not counting zero padding)
    pub supplied: usize,
    /// heap events while the call was armed, and whether the call is a real-time call
    pub allocs: u32,
    pub rt: bool,
    pub digest: u64,
    /// concrete control value used (bits), for reporting
    pub ctl_bits: u64,
    /// concrete chunk value for chunk ops
    pub ctl_chunk: usize,
    /// malformed calls: were all output buffers still 100 % sentinel afterwards
    pub untouched: bool,
}

#[derive(Debug, Clone, Serialize, PartialEq)]
pub struct Viol {
    pub prop: &'static str,
    pub clause: String,
    pub step: usize,
    pub detail: String,
}

#[derive(Debug, Clone, Default)]
pub struct Trace {
    pub init: Getters,
    pub steps: Vec<StepRec>,
    pub out: Vec<Vec<f64>>,
    pub viol: Vec<Viol>,
    pub died: Option<(usize, String)>,
    pub construct_err: Option<String>,
    pub total_in: u64,
    pub total_out: u64,
    /// frames consumed by processing calls (including zero padding)
    pub consumed: u64,
    pub cursor: u64,
    pub digest: u64,
    pub probe: Option<ProbeLog>,
    pub cross: Option<CrossLog>,
    /// ratio was changed at least once (C07's constant-ratio clause off from then on)
    pub ratio_changed: bool,
}

#[derive(Clone, Debug)]
pub struct RunOpts {
    pub start_cursor: u64,
    /// signal channel of instance channel 0 (mono twins of an n-channel instance)
    pub sig_ch0: usize,
    /// round the input samples to f32 first (f64 twin of an f32 instance)
    pub round_f32: bool,
    /// issue setters through the object-safe VecResampler wrapper
    pub vec_setters: bool,
    /// position mode: a reset also rewinds the signal to n = 0 (so the restart has a kink, not a step)
    pub rewind_on_reset: bool,
    pub keep_output: bool,
    /// cap on total output frames kept (safety)
    pub max_frames: u64,
}

impl Default for RunOpts {
    fn default() -> Self {
        RunOpts { start_cursor: 0, sig_ch0: 0, round_f32: false, vec_setters: false, rewind_on_reset: false, keep_output: true, max_frames: 40_000_000 }
    }
}

pub struct Runner<T: Flt> {
    pub cfg: Config,
    pub signal: Signal,
    pub inst: Box<dyn Dyn<T>>,
    pub probe: Option<Arc<Mutex<ProbeLog>>>,
    pub cross: Option<Arc<Mutex<CrossLog>>>,
    pub trace: Trace,
    pub opts: RunOpts,
    pub cur_rel: f64,
    ragged: u8,
    alias: bool,
    inbuf: Vec<Vec<T>>,
    outbuf: Vec<Vec<T>>,
}

fn fnv(h: &mut u64, x: u64) {
    *h ^= x;
    *h = h.wrapping_mul(0x0000_0100_0000_01B3);
    *h ^= *h >> 29;
}

/// The argument an in-range `SetRatio{rel}` passes: `rel` itself through the relative setter; through the absolute
/// setter orig * rel kept literally inside [orig/max, orig*max], and the two ends of the relative range map to the
/// exact absolute bounds (orig * (1/max) is usually not orig / max).
pub fn setratio_argument(cfg: &Config, rel: f64, relative_api: bool) -> f64 {
    let (orig, m) = (cfg.ratio, cfg.max_rel);
    if relative_api {
        rel
    } else if rel == 1.0 / m {
        orig / m
    } else if rel == m {
        orig * m
    } else {
        (orig * rel).clamp(orig / m, orig * m)
    }
}

/// The ratio the library is in after that call was accepted.
pub fn setratio_effective(cfg: &Config, rel: f64, relative_api: bool) -> f64 {
    let (orig, m) = (cfg.ratio, cfg.max_rel);
    if relative_api {
        (orig * rel).max(orig / m)
    } else {
        setratio_argument(cfg, rel, false)
    }
}

pub fn ulp_step(x: f64, k: i32) -> f64 {
    // move x by k ulps (x positive finite)
    let mut b = x.to_bits() as i64;
    b += k as i64;
    f64::from_bits(b as u64)
}

pub fn ctl_value(cfg: &Config, v: &CtlVal, relative_api: bool) -> f64 {
    let orig = cfg.ratio;
    let m = cfg.max_rel;
    let (lo, hi) = if relative_api { (1.0 / m, m) } else { (orig / m, orig * m) };
    match v {
        CtlVal::Rel(r) => {
            if relative_api {
                *r
            } else {
                orig * *r
            }
        }
        CtlVal::UpperUlp(k) => ulp_step(hi, *k as i32),
        CtlVal::LowerUlp(k) => ulp_step(lo, *k as i32),
        CtlVal::Nan => f64::NAN,
        CtlVal::PosInf => f64::INFINITY,
        CtlVal::NegInf => f64::NEG_INFINITY,
        CtlVal::Zero => 0.0,
        CtlVal::NegZero => -0.0,
        CtlVal::Neg(x) => -(x.abs()) * if relative_api { 1.0 } else { orig },
        CtlVal::Subnormal => 5e-324 * 1000.0,
        CtlVal::Huge => 1e300,
        CtlVal::Bits(b) => f64::from_bits(*b),
        CtlVal::Outside(f) => {
            if *f >= 1.0 {
                hi * (1.0 + 1e-9) * f
            } else {
                lo * (1.0 - 1e-9) * f.max(1e-6)
            }
        }
    }
}

pub fn chunk_value(max: usize, v: &ChunkVal) -> usize {
    match v {
        ChunkVal::Zero => 0,
        ChunkVal::One => 1,
        ChunkVal::Max => max,
        ChunkVal::MaxPlus1 => max + 1,
        ChunkVal::UsizeMax => usize::MAX,
        ChunkVal::N(n) => *n,
        ChunkVal::Pow2Plus { pow, delta } => (1usize << (*pow as usize % 64)).wrapping_add(*delta),
    }
}

impl<T: Flt> Runner<T> {
    pub fn new(cfg: &Config, signal: &Signal, opts: RunOpts) -> Result<Runner<T>, String> {
        LAST_PANIC.with(|p| p.borrow_mut().clear());
        let built = match catch_unwind(AssertUnwindSafe(|| build::<T>(cfg))) {
            Ok(Ok(b)) => b,
            Ok(Err(e)) => return Err(format!("constructor returned Err: {}", e)),
            Err(_) => return Err(format!("constructor panicked: {}", LAST_PANIC.with(|p| p.borrow().clone()))),
        };
        let mut r = Runner {
            cfg: cfg.clone(),
            signal: signal.clone(),
            inst: built.inst,
            probe: built.probe,
            cross: built.cross,
            trace: Trace::default(),
            opts,
            cur_rel: 1.0,
            ragged: 0,
            alias: false,
            inbuf: vec![Vec::new(); cfg.channels],
            outbuf: vec![Vec::new(); cfg.channels],
        };
        r.trace.out = vec![Vec::new(); cfg.channels];
        r.trace.cursor = r.opts.start_cursor;
        r.trace.init = r.getters().0;
        r.trace.digest = 0xcbf2_9ce4_8422_2325;
        // the allocation helpers must give buffers that last for the whole life of the instance
        let g = r.trace.init;
        let checks: [(&str, Vec<Vec<T>>, usize); 4] = [
            ("input_buffer_allocate(true)", r.inst.in_alloc(true), g.in_max),
            ("output_buffer_allocate(true)", r.inst.out_alloc(true), g.out_max),
            ("VecResampler::input_buffer_allocate(false)", r.inst.v_in_alloc(false), g.in_max),
            ("VecResampler::output_buffer_allocate(false)", r.inst.v_out_alloc(false), g.out_max),
        ];
        for (name, b, want) in checks.iter() {
            let filled = name.contains("(true)");
            let ok = b.len() == cfg.channels && b.iter().all(|c| if filled { c.len() == *want } else { c.is_empty() && c.capacity() >= *want });
            if !ok {
                r.viol("C04", "allocate-helper-size", 0, format!("{} gave {} channels of len {:?} / capacity {:?}, the max getter says {}", name, b.len(), b.first().map(|c| c.len()), b.first().map(|c| c.capacity()), want));
            }
        }
        Ok(r)
    }

    /// all getters, in an armed window; returns (getters, heap events)
    pub fn getters(&self) -> (Getters, u32) {
        alloc::arm();
        let g = Getters {
            in_max: self.inst.in_max(),
            in_next: self.inst.in_next(),
            out_max: self.inst.out_max(),
            out_next: self.inst.out_next(),
            delay: self.inst.delay(),
            channels: self.inst.channels(),
        };
        let (ev, _) = alloc::disarm();
        (g, ev)
    }

    fn viol(&mut self, prop: &'static str, clause: &str, step: usize, detail: String) {
        if self.trace.viol.len() < 64 {
            self.trace.viol.push(Viol { prop, clause: clause.to_string(), step, detail });
        }
    }

    pub fn dead(&self) -> bool {
        self.trace.died.is_some()
    }

    fn mask_arg(&self) -> Option<Vec<bool>> {
        self.cfg.mask.clone()
    }

    /// Real frames channel `c` gets in this call: `valid` unless the op is ragged. `overlong` (partial paths only,
    /// when the chunk is complete): frames beyond the needed size that the callee must ignore.
    fn channel_frames(&self, c: usize, valid: usize, need: usize, partial: bool) -> (usize, usize) {
        if self.ragged == 0 || valid == 0 {
            return (valid, 0);
        }
        let h = crate::rng::mix(((self.ragged as u64) << 32) ^ (c + self.opts.sig_ch0) as u64);
        match h % 4 {
            1 => {
                // shorter; active channels of a partial call keep at least one frame (C16 quantifies over 1..need)
                // (the same count whatever the entry path, so that path twins see the same data)
                let lo = 1;
                let v = lo + ((h >> 8) as usize % (valid - lo + 1));
                (v.min(valid), 0)
            }
            2 if partial && valid >= need => (valid, 1 + (h >> 8) as usize % 9),
            _ => (valid, 0),
        }
    }

    /// fill input buffers: full paths get `need` frames (first the channel's real frames, then zeros) plus a NaN
    /// slack; partial paths get exactly the channel's real frames (plus a NaN overhang when over-long)
    /// channel `c` is aliased to its predecessor in this call (same data; on the slices paths the same slice object)
    fn aliased(&self, c: usize) -> bool {
        self.alias && c >= 1 && self.cfg.active(c) && self.cfg.active(c - 1) && crate::rng::mix(0xA11A5 ^ (c + self.opts.sig_ch0) as u64 ^ self.trace.cursor) % 3 != 0
    }

    fn fill_input(&mut self, need: usize, valid: usize, slack: usize, partial: bool) {
        let cur = self.trace.cursor;
        for c in 0..self.cfg.channels {
            if self.aliased(c) {
                let prev = self.inbuf[c - 1].clone();
                self.inbuf[c] = prev;
                continue;
            }
            let (vc, over) = self.channel_frames(c, valid, need, partial);
            let buf = &mut self.inbuf[c];
            buf.clear();
            if !self.cfg.active(c) && self.cfg.empty_inactive {
                continue;
            }
            let len = if partial { vc } else { need };
            buf.reserve(len + slack + over);
            for k in 0..len {
                if k < vc {
                    let mut x = self.signal.at(c + self.opts.sig_ch0, cur + k as u64);
                    if self.opts.round_f32 {
                        x = x as f32 as f64;
                    }
                    buf.push(T::from64(x));
                } else {
                    buf.push(T::zero());
                }
            }
            for _ in 0..(slack + over) {
                buf.push(T::from64(f64::NAN));
            }
        }
    }

    fn fill_output(&mut self, len: usize) {
        // inactive channels: their output buffers may be empty too (every other call, when the scenario passes
        // inactive channels as empty slices)
        let empty_out = self.cfg.empty_inactive && self.trace.steps.len() % 2 == 1;
        for c in 0..self.cfg.channels {
            let buf = &mut self.outbuf[c];
            buf.clear();
            if empty_out && !self.cfg.active(c) {
                continue;
            }
            buf.resize(len, T::sentinel());
        }
    }

    /// Execute one op. `idx` is the op's index in the scenario (for reporting).
    pub fn step(&mut self, idx: usize, op: &Op) {
        if self.dead() {
            return;
        }
        heartbeat();
        let (pre, gev) = self.getters();
        if gev > 0 {
            self.viol("C09", "getter-heap", idx, format!("{} heap events inside the getters", gev));
        }
        let vg = self.inst.v_getters();
        if vg != [pre.in_max, pre.in_next, pre.out_max, pre.out_next, pre.delay, pre.channels] {
            self.viol("C16", "vec-getters-differ", idx, format!("VecResampler getters {:?} vs Resampler getters {:?}", vg, pre));
        }
        if pre.in_next > pre.in_max {
            self.viol("C04", "in_next<=in_max", idx, format!("input_frames_next {} > input_frames_max {}", pre.in_next, pre.in_max));
        }
        if pre.out_next > pre.out_max {
            self.viol("C04", "out_next<=out_max", idx, format!("output_frames_next {} > output_frames_max {}", pre.out_next, pre.out_max));
        }
        if pre.in_max != self.trace.init.in_max || pre.out_max != self.trace.init.out_max {
            self.viol(
                "C04",
                "max-stable",
                idx,
                format!("max getters changed: in_max {} -> {}, out_max {} -> {}", self.trace.init.in_max, pre.in_max, self.trace.init.out_max, pre.out_max),
            );
        }
        let mut rec = StepRec {
            op: idx,
            code: op.kind_code(),
            pre,
            post: pre,
            res: StepRes::Skipped,
            cursor: self.trace.cursor,
            out_before: self.trace.total_out,
            supplied: 0,
            allocs: 0,
            rt: false,
            digest: 0,
            ctl_bits: 0,
            ctl_chunk: 0,
            untouched: true,
        };
        LAST_PANIC.with(|p| p.borrow_mut().clear());
        match op {
            Op::Process { path, valid, slack_in, slack_out, slices, ragged, alias } => {
                self.ragged = *ragged;
                self.alias = *alias;
                self.do_process(idx, &mut rec, *path, *valid, *slack_in as usize, *slack_out as usize, *slices);
            }
            Op::SetRatio { rel, ramp, relative_api } => {
                if !self.cfg.kind.is_async() {
                    // on synchronous types a "valid" ratio change does not exist; issue it anyway, it must be refused
                    let r = self.ctl_call(|i| i.set_ratio_rel(*rel, *ramp), &mut rec);
                    if r != StepRes::CtlErr(E::SyncNotAdjustable) && !matches!(r, StepRes::Panic(_)) {
                        self.viol("C12", "sync-not-adjustable", idx, format!("synchronous resampler answered {:?}", r));
                    }
                } else {
                    let orig = self.cfg.ratio;
                    // "in range" is literal: the absolute value is kept inside [orig/max, orig*max]
                    // (orig * (1/max) can round to one ulp below orig / max)
                    let m = self.cfg.max_rel;
                    let v = setratio_argument(&self.cfg, *rel, *relative_api);
                    let _ = (orig, m);
                    rec.ctl_bits = v.to_bits();
                    let rel_api = *relative_api;
                    let ramp = *ramp;
                    let vs = self.opts.vec_setters;
                    let r = self.ctl_call(
                        |i| match (rel_api, vs) {
                            (true, false) => i.set_ratio_rel(v, ramp),
                            (false, false) => i.set_ratio(v, ramp),
                            (true, true) => i.v_set_ratio_rel(v, ramp),
                            (false, true) => i.v_set_ratio(v, ramp),
                        },
                        &mut rec,
                    );
                    match r {
                        StepRes::CtlOk => {
                            self.trace.ratio_changed = true;
                            self.cur_rel = *rel;
                        }
                        StepRes::Panic(_) => {}
                        other => self.viol("C03", "valid-setter-refused", idx, format!("in-range ratio change rel={} refused: {:?}", rel, other)),
                    }
                }
            }
            Op::SetChunk { n } => {
                let n = (*n).clamp(1, self.trace.init_chunk_max(&self.cfg));
                rec.ctl_chunk = n;
                let r = self.ctl_call(|i| i.set_chunk(n), &mut rec);
                if self.cfg.kind.is_sinc() {
                    if !matches!(r, StepRes::CtlOk | StepRes::Panic(_)) {
                        self.viol("C03", "valid-setter-refused", idx, format!("set_chunk_size({}) refused: {:?}", n, r));
                    }
                } else if r != StepRes::CtlErr(E::ChunkSizeNotAdjustable) && !matches!(r, StepRes::Panic(_)) {
                    self.viol("C12", "chunk-not-adjustable", idx, format!("set_chunk_size on {:?} answered {:?}", self.cfg.kind, r));
                }
            }
            Op::Reset => {
                alloc::arm();
                let r = catch_unwind(AssertUnwindSafe(|| self.inst.do_reset()));
                let (ev, _) = alloc::disarm();
                rec.allocs = ev;
                rec.rt = true;
                match r {
                    Ok(()) => {
                        rec.res = StepRes::Reset;
                        self.cur_rel = 1.0;
                        if self.opts.rewind_on_reset {
                            self.trace.cursor = 0;
                        }
                    }
                    Err(_) => {
                        rec.res = StepRes::Panic(LAST_PANIC.with(|p| p.borrow().clone()));
                    }
                }
            }
            Op::Bad { call, path } => {
                self.do_bad(idx, &mut rec, call, *path);
            }
            Op::BadRatio { val, ramp, relative_api } => {
                let v = ctl_value(&self.cfg, val, *relative_api);
                rec.ctl_bits = v.to_bits();
                let rel_api = *relative_api;
                let ramp = *ramp;
                let r = self.ctl_call(|i| if rel_api { i.set_ratio_rel(v, ramp) } else { i.set_ratio(v, ramp) }, &mut rec);
                if r == StepRes::CtlOk {
                    self.trace.ratio_changed = true;
                    self.cur_rel = if rel_api { v } else { v / self.cfg.ratio };
                }
            }
            Op::BadChunk { val } => {
                let n = chunk_value(self.trace.init_chunk_max(&self.cfg), val);
                rec.ctl_chunk = n;
                let _ = self.ctl_call(|i| i.set_chunk(n), &mut rec);
            }
            Op::Migrate { .. } => {}
            Op::SetMask { mask } => {
                // harness-side state only: the mask argument of the following calls
                let mut m = mask.clone();
                if let Some(v) = &mut m {
                    v.resize(self.cfg.channels, true);
                }
                self.cfg.mask = m;
                if self.cfg.mask.is_none() {
                    self.cfg.empty_inactive = false;
                }
                rec.res = StepRes::CtlOk;
            }
        }
        if let StepRes::Panic(msg) = &rec.res {
            let msg = msg.clone();
            self.trace.died = Some((idx, msg.clone()));
            self.viol("C03", "panic", idx, msg);
            self.trace.steps.push(rec);
            return;
        }
        if rec.rt && rec.allocs > 0 {
            self.viol("C09", "heap-in-realtime-call", idx, format!("{} heap events during op {:?}", rec.allocs, op));
        }
        rec.post = self.getters().0;
        let mut h = self.trace.digest;
        fnv(&mut h, rec.digest);
        fnv(&mut h, rec.post.in_next as u64);
        fnv(&mut h, rec.post.out_next as u64);
        self.trace.digest = h;
        self.trace.steps.push(rec);
    }

    fn ctl_call<F: FnOnce(&mut dyn Dyn<T>) -> rubato::ResampleResult<()>>(&mut self, f: F, rec: &mut StepRec) -> StepRes {
        let inst = &mut *self.inst;
        alloc::arm();
        let r = catch_unwind(AssertUnwindSafe(|| f(inst)));
        let (ev, _) = alloc::disarm();
        rec.allocs = ev;
        rec.rt = true;
        let res = match r {
            Ok(Ok(())) => StepRes::CtlOk,
            Ok(Err(e)) => StepRes::CtlErr(E::from(&e)),
            Err(_) => StepRes::Panic(LAST_PANIC.with(|p| p.borrow().clone())),
        };
        let mut h = 0x1234_5678u64;
        fnv(&mut h, match &res {
            StepRes::CtlOk => 1,
            StepRes::CtlErr(_) => 2,
            _ => 3,
        });
        rec.digest = h;
        rec.res = res.clone();
        res
    }

    #[allow(clippy::too_many_arguments)]
    fn do_process(&mut self, idx: usize, rec: &mut StepRec, path: Path, valid: Option<u32>, slack_in: usize, slack_out: usize, slices: bool) {
        let pre = rec.pre;
        let need = pre.in_next;
        let nvalid = match valid {
            None => need,
            Some(v) => (v as usize).min(need),
        };
        rec.supplied = nvalid;
        let mask = self.mask_arg();
        let maskref = mask.as_deref();
        let partial_none = path.is_partial() && valid == Some(0);
        // partial paths get exactly `nvalid` frames; the other paths get a zero padded full chunk
        if path.is_partial() {
            self.fill_input(need, nvalid, 0, true);
        } else {
            self.fill_input(need, nvalid, slack_in, false);
        }
        let out_len = pre.out_next + slack_out;
        if !path.is_wrapper() {
            self.fill_output(out_len);
        }
        let alias_flags: Vec<bool> = (0..self.cfg.channels).map(|c| self.aliased(c)).collect();
        let inbuf = std::mem::take(&mut self.inbuf);
        let mut outbuf = std::mem::take(&mut self.outbuf);
        let inst = &mut *self.inst;
        let rt = matches!(path, Path::IntoBuffer | Path::VecIntoBuffer);
        rec.rt = rt;
        // result: Ok((n_in, n_out, Option<wrapper output>))
        let mut wrapped: Option<Vec<Vec<T>>> = None;
        let ev;
        let r = if slices && path == Path::IntoBuffer {
            let i: Vec<&[T]> = (0..inbuf.len()).map(|c| { let mut r = c; while r > 0 && alias_flags.get(r).copied().unwrap_or(false) { r -= 1; } inbuf[r].as_slice() }).collect();
            let mut o: Vec<&mut [T]> = outbuf.iter_mut().map(|v| v.as_mut_slice()).collect();
            alloc::arm();
            let r = catch_unwind(AssertUnwindSafe(|| inst.pib_slices(&i, &mut o, maskref)));
            ev = alloc::disarm().0;
            r
        } else {
            alloc::arm();
            let r = catch_unwind(AssertUnwindSafe(|| -> rubato::ResampleResult<(usize, usize)> {
                match path {
                    Path::IntoBuffer => inst.pib_vec(&inbuf, &mut outbuf, maskref),
                    Path::VecIntoBuffer => inst.v_pib(&inbuf, &mut outbuf, maskref),
                    Path::Wrapper => {
                        let w = if slices {
                            let i: Vec<&[T]> = (0..inbuf.len()).map(|c| { let mut r = c; while r > 0 && alias_flags.get(r).copied().unwrap_or(false) { r -= 1; } inbuf[r].as_slice() }).collect();
                            inst.wrapper_slices(&i, maskref)?
                        } else {
                            inst.wrapper_vec(&inbuf, maskref)?
                        };
                        wrapped = Some(w);
                        Ok((usize::MAX, usize::MAX))
                    }
                    Path::VecWrapper => {
                        wrapped = Some(inst.v_wrapper(&inbuf, maskref)?);
                        Ok((usize::MAX, usize::MAX))
                    }
                    Path::PartialInto => {
                        if partial_none {
                            inst.partial_into_vec(None, &mut outbuf, maskref)
                        } else if slices {
                            let i: Vec<&[T]> = (0..inbuf.len()).map(|c| { let mut r = c; while r > 0 && alias_flags.get(r).copied().unwrap_or(false) { r -= 1; } inbuf[r].as_slice() }).collect();
                            let mut o: Vec<&mut [T]> = outbuf.iter_mut().map(|v| v.as_mut_slice()).collect();
                            inst.partial_into_slices(Some(&i), &mut o, maskref)
                        } else {
                            inst.partial_into_vec(Some(&inbuf), &mut outbuf, maskref)
                        }
                    }
                    Path::VecPartialInto => {
                        if partial_none {
                            inst.v_partial_into(None, &mut outbuf, maskref)
                        } else {
                            inst.v_partial_into(Some(&inbuf), &mut outbuf, maskref)
                        }
                    }
                    Path::PartialWrapper => {
                        let w = if partial_none { inst.partial_wrapper_vec(None, maskref)? } else { inst.partial_wrapper_vec(Some(&inbuf), maskref)? };
                        wrapped = Some(w);
                        Ok((usize::MAX, usize::MAX))
                    }
                    Path::VecPartialWrapper => {
                        let w = if partial_none { inst.v_partial_wrapper(None, maskref)? } else { inst.v_partial_wrapper(Some(&inbuf), maskref)? };
                        wrapped = Some(w);
                        Ok((usize::MAX, usize::MAX))
                    }
                }
            }));
            ev = alloc::disarm().0;
            r
        };
        rec.allocs = ev;
        self.inbuf = inbuf;
        match r {
            Err(_) => {
                rec.res = StepRes::Panic(LAST_PANIC.with(|p| p.borrow().clone()));
                self.outbuf = outbuf;
            }
            Ok(Err(e)) => {
                let e = E::from(&e);
                self.viol("C03", "valid-call-returned-err", idx, format!("{:?} via {:?} (need {}, out_next {})", e, path, need, pre.out_next));
                rec.res = StepRes::ProcErr(e);
                self.outbuf = outbuf;
            }
            Ok(Ok((mut n_in, mut n_out))) => {
                let mut h = 0xabcdu64;
                if let Some(w) = wrapped.take() {
                    // wrapper output: every active channel has the same length n; inactive are empty
                    n_in = need;
                    n_out = usize::MAX;
                    if w.len() != self.cfg.channels {
                        self.viol("C16", "wrapper-channel-count", idx, format!("wrapper returned {} channels", w.len()));
                    }
                    for (c, ch) in w.iter().enumerate() {
                        if self.cfg.active(c) {
                            if n_out == usize::MAX {
                                n_out = ch.len();
                            } else if ch.len() != n_out {
                                self.viol("C16", "wrapper-lengths-differ", idx, format!("channel {} has {} frames, expected {}", c, ch.len(), n_out));
                            }
                        } else if !ch.is_empty() {
                            self.viol("C16", "wrapper-masked-nonempty", idx, format!("masked channel {} returned {} frames", c, ch.len()));
                        }
                    }
                    // all channels masked: no way to observe the count through the wrapper (n_out stays usize::MAX = unknown)
                    outbuf = w;
                    for c in 0..outbuf.len().min(self.cfg.channels) {
                        if self.cfg.active(c) {
                            for (k, s) in outbuf[c].iter().enumerate() {
                                if s.is_sentinel() {
                                    self.viol("C04", "frame-not-written", idx, format!("wrapper channel {} frame {} not written", c, k));
                                    break;
                                }
                            }
                        }
                    }
                } else {
                    // sentinel high-water mark
                    for c in 0..self.cfg.channels {
                        let b = &outbuf[c];
                        if self.cfg.active(c) {
                            let upto = n_out.min(b.len());
                            if let Some(k) = b[..upto].iter().position(|s| s.is_sentinel()) {
                                self.viol("C04", "frame-not-written", idx, format!("channel {} frame {} of {} reported frames was not written", c, k, n_out));
                            }
                            if let Some(k) = b[upto..].iter().position(|s| !s.is_sentinel()) {
                                self.viol("C04", "wrote-past-count", idx, format!("channel {} frame {} written but only {} frames reported", c, upto + k, n_out));
                            }
                        } else if let Some(k) = b.iter().position(|s| !s.is_sentinel()) {
                            self.viol("C11", "masked-channel-written", idx, format!("masked channel {} frame {} was written", c, k));
                        }
                    }
                    if n_in != need {
                        self.viol("C04", "consumed!=in_next", idx, format!("call reports {} frames consumed, input_frames_next was {}", n_in, need));
                    }
                }
                let unknown_out = n_out == usize::MAX;
                if unknown_out {
                    n_out = 0;
                }
                if n_out > pre.out_next {
                    self.viol("C04", "n_out<=out_next", idx, format!("{} frames produced, output_frames_next was {}", n_out, pre.out_next));
                }
                if self.cfg.kind.fixed_out() && n_out != pre.out_next && !(path.is_wrapper() && self.all_masked()) {
                    self.viol("C04", "fixed-out-exact", idx, format!("{} frames produced, output_frames_next was {} on a fixed-output type", n_out, pre.out_next));
                }
                if self.cfg.kind == Kind::FftIn && n_out != pre.out_next && !(path.is_wrapper() && self.all_masked()) {
                    self.viol("C04", "sync-exact", idx, format!("{} frames produced, output_frames_next was {} on a synchronous type", n_out, pre.out_next));
                }
                // (counts are compared through StepRes; the digest covers the sample bits only)
                // record output
                let keep = self.opts.keep_output && self.trace.total_out + (n_out as u64) <= self.opts.max_frames;
                let mut nonfinite: Option<(usize, usize, f64)> = None;
                for c in 0..self.cfg.channels.min(outbuf.len()) {
                    if !self.cfg.active(c) {
                        continue;
                    }
                    let upto = n_out.min(outbuf[c].len());
                    for (k, s) in outbuf[c][..upto].iter().enumerate() {
                        fnv(&mut h, s.bits());
                        let v = s.to64();
                        if !v.is_finite() && nonfinite.is_none() && !s.is_sentinel() {
                            nonfinite = Some((c, k, v));
                        }
                    }
                    if keep {
                        self.trace.out[c].extend(outbuf[c][..upto].iter().map(|s| s.to64()));
                    }
                }
                if let Some((c, k, v)) = nonfinite {
                    if !matches!(self.signal, Signal::Wide { .. } | Signal::NanSparse { .. } | Signal::Extreme { .. }) {
                        self.viol("C03", "non-finite-output", idx, format!("channel {} frame {} is {} (finite bounded input; NaN = read of the input slack beyond input_frames_next)", c, k, v));
                    }
                }
                rec.digest = h;
                rec.res = StepRes::Proc { n_in, n_out: if unknown_out { usize::MAX } else { n_out } };
                self.trace.total_in += nvalid as u64;
                self.trace.consumed += n_in as u64;
                self.trace.total_out += n_out as u64;
                self.trace.cursor += nvalid as u64;
                self.outbuf = outbuf;
            }
        }
    }

    fn all_masked(&self) -> bool {
        (0..self.cfg.channels).all(|c| !self.cfg.active(c))
    }

    fn do_bad(&mut self, _idx: usize, rec: &mut StepRec, call: &BadCall, path: Path) {
        if let BadCall::ForeignUnwind { seed } = call {
            foreign_unwind::<T>(*seed);
            rec.res = StepRes::Skipped;
            return;
        }
        let pre = rec.pre;
        let need = pre.in_next;
        let ch = self.cfg.channels;
        let mut mask = self.mask_arg();
        self.ragged = 0;
        self.alias = false;
        self.fill_input(need, need, 0, false);
        self.fill_output(pre.out_next);
        let mut inbuf = std::mem::take(&mut self.inbuf);
        let mut outbuf = std::mem::take(&mut self.outbuf);
        let active: Vec<usize> = (0..ch).filter(|c| self.cfg.active(*c)).collect();
        let mut applicable = true;
        let resize = |n: usize, delta: i8, zero: bool| -> usize {
            if zero {
                0
            } else {
                (n as i64 + delta as i64).max(0) as usize
            }
        };
        match call {
            BadCall::InChannels { delta, zero } => {
                let n = resize(ch, *delta, *zero);
                inbuf.resize(n, vec![T::zero(); need]);
            }
            BadCall::OutChannels { delta, zero } => {
                let n = resize(ch, *delta, *zero);
                outbuf.resize(n, vec![T::sentinel(); pre.out_next]);
            }
            BadCall::MaskLen { delta, zero } => {
                let n = resize(ch, *delta, *zero);
                let mut m = mask.clone().unwrap_or_else(|| vec![true; ch]);
                m.resize(n, true);
                mask = Some(m);
            }
            BadCall::InShort { ch: c, missing } => {
                if !active.is_empty() && need > 0 && !path.is_partial() {
                    let c = active[*c as usize % active.len()];
                    let miss = (*missing as usize).clamp(1, need);
                    inbuf[c].truncate(need - miss);
                    rec.ctl_chunk = c;
                    rec.ctl_bits = (need - miss) as u64;
                } else {
                    applicable = false;
                }
            }
            BadCall::ForeignUnwind { .. } => unreachable!(),
            BadCall::OutShort { ch: c, missing } => {
                if !active.is_empty() && pre.out_next > 0 && !path.is_wrapper() {
                    let c = active[*c as usize % active.len()];
                    let miss = (*missing as usize).clamp(1, pre.out_next);
                    outbuf[c].truncate(pre.out_next - miss);
                    rec.ctl_chunk = c;
                    rec.ctl_bits = (pre.out_next - miss) as u64;
                } else {
                    applicable = false;
                }
            }
        }
        if let BadCall::OutChannels { .. } = call {
            if path.is_wrapper() {
                applicable = false;
            }
        }
        if let BadCall::InChannels { .. } = call {
            rec.ctl_bits = inbuf.len() as u64;
            if inbuf.len() == ch {
                applicable = false;
            }
        }
        if let BadCall::OutChannels { .. } = call {
            rec.ctl_bits = outbuf.len() as u64;
            if outbuf.len() == ch {
                applicable = false;
            }
        }
        if let BadCall::MaskLen { .. } = call {
            rec.ctl_bits = mask.as_ref().map(|m| m.len()).unwrap_or(ch) as u64;
            if rec.ctl_bits as usize == ch {
                applicable = false;
            }
        }
        if !applicable {
            inbuf.truncate(ch);
            inbuf.resize(ch, Vec::new());
            outbuf.truncate(ch);
            outbuf.resize(ch, Vec::new());
            self.inbuf = inbuf;
            self.outbuf = outbuf;
            rec.res = StepRes::Skipped;
            return;
        }
        let maskref = mask.as_deref();
        let inst = &mut *self.inst;
        rec.rt = matches!(path, Path::IntoBuffer | Path::VecIntoBuffer);
        alloc::arm();
        let r = catch_unwind(AssertUnwindSafe(|| -> Result<(), rubato::ResampleError> {
            match path {
                Path::IntoBuffer => inst.pib_vec(&inbuf, &mut outbuf, maskref).map(|_| ()),
                Path::VecIntoBuffer => inst.v_pib(&inbuf, &mut outbuf, maskref).map(|_| ()),
                Path::Wrapper => inst.wrapper_vec(&inbuf, maskref).map(|_| ()),
                Path::VecWrapper => inst.v_wrapper(&inbuf, maskref).map(|_| ()),
                Path::PartialInto => inst.partial_into_vec(Some(&inbuf), &mut outbuf, maskref).map(|_| ()),
                Path::VecPartialInto => inst.v_partial_into(Some(&inbuf), &mut outbuf, maskref).map(|_| ()),
                Path::PartialWrapper => inst.partial_wrapper_vec(Some(&inbuf), maskref).map(|_| ()),
                Path::VecPartialWrapper => inst.v_partial_wrapper(Some(&inbuf), maskref).map(|_| ()),
            }
        }));
        rec.allocs = alloc::disarm().0;
        rec.untouched = outbuf.iter().all(|b| b.iter().all(|s| s.is_sentinel()));
        rec.res = match r {
            Ok(Ok(())) => StepRes::Proc { n_in: 0, n_out: 0 },
            Ok(Err(e)) => StepRes::ProcErr(E::from(&e)),
            // a panic on a malformed call is a C13 violation, not a dead run -- but the instance may be
            // poisoned, so the run stops here all the same
            Err(_) => StepRes::Panic(LAST_PANIC.with(|p| p.borrow().clone())),
        };
        inbuf.truncate(ch);
        inbuf.resize(ch, Vec::new());
        outbuf.truncate(ch);
        outbuf.resize(ch, Vec::new());
        self.inbuf = inbuf;
        self.outbuf = outbuf;
    }

    pub fn finish(mut self) -> Trace {
        self.trace.probe = self.probe.as_ref().map(|p| p.lock().unwrap().clone());
        self.trace.cross = self.cross.as_ref().map(|p| p.lock().unwrap().clone());
        self.trace
    }
}

static BEAT_ON: std::sync::atomic::AtomicBool = std::sync::atomic::AtomicBool::new(false);
static BEAT_LAST: std::sync::Mutex<Option<std::time::Instant>> = std::sync::Mutex::new(None);

/// Worker and evaluation-child processes switch this on: between two library calls (never inside one) a line
/// `H` goes to stdout at most once per second, so that the supervisor's hang limit applies to a *call* that does
/// not return, not to a long stream of calls that do. The line carries nothing and is not part of any result.
pub fn enable_heartbeat() {
    BEAT_ON.store(true, std::sync::atomic::Ordering::Relaxed);
}

pub fn heartbeat() {
    if !BEAT_ON.load(std::sync::atomic::Ordering::Relaxed) {
        return;
    }
    let now = std::time::Instant::now();
    if let Ok(mut g) = BEAT_LAST.try_lock() {
        let due = match *g {
            Some(t) => now.duration_since(t).as_millis() >= 1000,
            None => true,
        };
        if due {
            *g = Some(now);
            use std::io::Write;
            let so = std::io::stdout();
            let mut o = so.lock();
            let _ = writeln!(o, "H");
            let _ = o.flush();
        }
    }
}

/// User buffer type whose accessor panics on the n-th access.
struct Boom<T> {
    v: Vec<T>,
    left: std::cell::Cell<u32>,
}

impl<T> Boom<T> {
    fn tick(&self) {
        let l = self.left.get();
        if l == 0 {
            panic!("user buffer accessor unwinds (injected)");
        }
        self.left.set(l - 1);
    }
}

impl<T> AsRef<[T]> for Boom<T> {
    fn as_ref(&self) -> &[T] {
        self.tick();
        &self.v
    }
}

impl<T> AsMut<[T]> for Boom<T> {
    fn as_mut(&mut self) -> &mut [T] {
        self.tick();
        &mut self.v
    }
}

/// The `ForeignUnwind` fault: see `BadCall::ForeignUnwind`.
pub fn foreign_unwind<T: Flt>(seed: u32) {
    use rubato::Resampler;
    let mut rng = crate::rng::Rng::new(crate::rng::mix(seed as u64 ^ 0xB00A));
    let channels = rng.usize_in(1, 4);
    let chunk = *rng.pick(&[8usize, 64, 300, 1024, 5000]);
    let built = catch_unwind(AssertUnwindSafe(|| rubato::FastFixedIn::<T>::new(1.0, 2.0, rubato::PolynomialDegree::Linear, chunk, channels)));
    let mut rs = match built {
        Ok(Ok(r)) => r,
        _ => return,
    };
    let out_n = rs.output_frames_max();
    let in_fail = rng.chance(0.3);
    // input longer or shorter than a chunk, loud so that any residue is visible
    let in_len = if rng.chance(0.5) { rng.usize_in(1, chunk) } else { chunk + rng.usize_in(0, chunk) };
    let budget_in = if in_fail { rng.below(4) as u32 } else { u32::MAX };
    let budget_out = if in_fail { u32::MAX } else { rng.below(4) as u32 };
    let x: Vec<Boom<T>> = (0..channels).map(|c| Boom { v: (0..in_len).map(|k| T::from64(3.0 + crate::rng::noise(seed as u64, c, k as u64))).collect(), left: std::cell::Cell::new(budget_in) }).collect();
    let mut y: Vec<Boom<T>> = (0..channels).map(|_| Boom { v: vec![T::zero(); out_n], left: std::cell::Cell::new(budget_out) }).collect();
    let partial = rng.chance(0.8);
    let _ = catch_unwind(AssertUnwindSafe(|| {
        if partial {
            let _ = rs.process_partial_into_buffer(Some(&x[..]), &mut y[..], None);
        } else if in_len >= chunk {
            let _ = rs.process_into_buffer(&x[..], &mut y[..], None);
        }
    }));
}

impl Trace {
    /// maximum chunk size for set_chunk_size = construction-time chunk
    pub fn init_chunk_max(&self, cfg: &Config) -> usize {
        cfg.chunk.max(1)
    }
}

/// Run a whole op list.
pub fn run_ops<T: Flt>(cfg: &Config, signal: &Signal, ops: &[Op], opts: RunOpts) -> Trace {
    match Runner::<T>::new(cfg, signal, opts) {
        Ok(mut r) => {
            for (i, op) in ops.iter().enumerate() {
                r.step(i, op);
                if r.dead() {
                    break;
                }
            }
            r.finish()
        }
        Err(e) => {
            let mut t = Trace::default();
            t.construct_err = Some(e);
            t
        }
    }
}

/// Dispatch on the sample type.
pub fn run_cfg(cfg: &Config, signal: &Signal, ops: &[Op], opts: RunOpts) -> Trace {
    if cfg.f32 {
        run_ops::<f32>(cfg, signal, ops, opts)
    } else {
        run_ops::<f64>(cfg, signal, ops, opts)
    }
}
