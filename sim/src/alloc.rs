//! Allocator seam (F8): while a thread has "armed" the seam, every heap operation on that
//! thread is counted.  The heap is "unavailable" during real-time calls; the call still
//! completes so the run can continue and every offending call is reported.

use std::alloc::{GlobalAlloc, Layout, System};
use std::cell::Cell;

pub struct CountingAlloc;

thread_local! {
    static ARMED: Cell<bool> = const { Cell::new(false) };
    static EVENTS: Cell<u32> = const { Cell::new(0) };
    static BYTES: Cell<u64> = const { Cell::new(0) };
}

#[inline]
fn note(size: usize) {
    // try_with: TLS may be gone during thread teardown
    let _ = ARMED.try_with(|a| {
        if a.get() {
            let _ = EVENTS.try_with(|e| e.set(e.get().saturating_add(1)));
            let _ = BYTES.try_with(|b| b.set(b.get().saturating_add(size as u64)));
        }
    });
}

unsafe impl GlobalAlloc for CountingAlloc {
    unsafe fn alloc(&self, layout: Layout) -> *mut u8 {
        note(layout.size());
        System.alloc(layout)
    }
    unsafe fn dealloc(&self, ptr: *mut u8, layout: Layout) {
        note(layout.size());
        System.dealloc(ptr, layout)
    }
    unsafe fn alloc_zeroed(&self, layout: Layout) -> *mut u8 {
        note(layout.size());
        System.alloc_zeroed(layout)
    }
    unsafe fn realloc(&self, ptr: *mut u8, layout: Layout, new_size: usize) -> *mut u8 {
        note(new_size);
        System.realloc(ptr, layout, new_size)
    }
}

/// Arm the seam on this thread and clear the counters.
pub fn arm() {
    EVENTS.with(|e| e.set(0));
    BYTES.with(|b| b.set(0));
    ARMED.with(|a| a.set(true));
}

/// Disarm and return (events, bytes) seen while armed.
pub fn disarm() -> (u32, u64) {
    ARMED.with(|a| a.set(false));
    (EVENTS.with(|e| e.get()), BYTES.with(|b| b.get()))
}
