//! SplitMix64: the only source of randomness in the simulator. One integer decides everything.

#[derive(Clone, Debug)]
pub struct Rng(pub u64);

pub fn mix(mut z: u64) -> u64 {
    z = z.wrapping_add(0x9E37_79B9_7F4A_7C15);
    z = (z ^ (z >> 30)).wrapping_mul(0xBF58_476D_1CE4_E5B9);
    z = (z ^ (z >> 27)).wrapping_mul(0x94D0_49BB_1331_11EB);
    z ^ (z >> 31)
}

/// Hash of a string, used to derive per-property streams from VERIF_SEED.
pub fn hash_str(s: &str) -> u64 {
    let mut h = 0xcbf2_9ce4_8422_2325u64;
    for b in s.bytes() {
        h ^= b as u64;
        h = h.wrapping_mul(0x0000_0100_0000_01B3);
    }
    h
}

/// Seed of run `i` of property `prop` under base seed `base`.
pub fn run_seed(base: u64, prop: &str, i: u64) -> u64 {
    mix(mix(base ^ hash_str(prop)).wrapping_add(i.wrapping_mul(0xD134_2543_DE82_EF95)))
}

impl Rng {
    pub fn new(seed: u64) -> Self {
        Rng(seed)
    }
    pub fn next(&mut self) -> u64 {
        self.0 = self.0.wrapping_add(0x9E37_79B9_7F4A_7C15);
        let mut z = self.0;
        z = (z ^ (z >> 30)).wrapping_mul(0xBF58_476D_1CE4_E5B9);
        z = (z ^ (z >> 27)).wrapping_mul(0x94D0_49BB_1331_11EB);
        z ^ (z >> 31)
    }
    /// Fork an independent stream.
    pub fn fork(&mut self) -> Rng {
        Rng(mix(self.next()))
    }
    /// Uniform in 0..n (n >= 1).
    pub fn below(&mut self, n: u64) -> u64 {
        debug_assert!(n >= 1);
        // multiply-shift; bias negligible for our n
        ((self.next() as u128 * n as u128) >> 64) as u64
    }
    pub fn range(&mut self, lo: u64, hi_incl: u64) -> u64 {
        lo + self.below(hi_incl - lo + 1)
    }
    pub fn usize_in(&mut self, lo: usize, hi_incl: usize) -> usize {
        self.range(lo as u64, hi_incl as u64) as usize
    }
    /// Uniform in [0,1).
    pub fn unit(&mut self) -> f64 {
        (self.next() >> 11) as f64 * (1.0 / (1u64 << 53) as f64)
    }
    pub fn uniform(&mut self, lo: f64, hi: f64) -> f64 {
        lo + (hi - lo) * self.unit()
    }
    pub fn log_uniform(&mut self, lo: f64, hi: f64) -> f64 {
        (lo.ln() + (hi.ln() - lo.ln()) * self.unit()).exp()
    }
    pub fn log_usize(&mut self, lo: usize, hi: usize) -> usize {
        let v = self.log_uniform(lo as f64, hi as f64 + 1.0).floor() as usize;
        v.clamp(lo, hi)
    }
    pub fn chance(&mut self, p: f64) -> bool {
        self.unit() < p
    }
    pub fn pick<'a, T>(&mut self, xs: &'a [T]) -> &'a T {
        &xs[self.below(xs.len() as u64) as usize]
    }
    /// Weighted index.
    pub fn weighted(&mut self, w: &[f64]) -> usize {
        let tot: f64 = w.iter().sum();
        let mut x = self.unit() * tot;
        for (i, wi) in w.iter().enumerate() {
            if x < *wi {
                return i;
            }
            x -= wi;
        }
        w.len() - 1
    }
}

/// Stateless noise: uniform in [-1,1) as a pure function of (seed, channel, n).
pub fn noise(seed: u64, ch: usize, n: u64) -> f64 {
    let h = mix(seed ^ mix((ch as u64) << 48 ^ n));
    ((h >> 11) as f64) * (2.0 / (1u64 << 53) as f64) - 1.0
}
