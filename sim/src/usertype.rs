//! C16 for a user-written `Resampler`: the trait's provided methods (`process`, `process_partial*`,
//! `*_buffer_allocate`) and the object-safe `VecResampler` wrapper are library code that every implementor gets.
//! The built-in types all return `input_frames_next()` as the consumed count, never override the allocation
//! helpers and (FixedOut/FFT) always fill `output_frames_next()` frames, so wrapper mistakes in exactly those
//! corners are invisible through them. This toy implementor differs in all three.

use crate::oracle::Outcome;
use crate::rng::Rng;
use rubato::{ResampleError, ResampleResult, Resampler};

/// Decimator by 2 with two frames of look-ahead that it does not consume, a state of one frame, an
/// over-estimating `output_frames_next`, and its own (larger) allocation helpers.
pub struct Toy {
    channels: usize,
    chunk: usize,
    last: Vec<f64>,
    calls: usize,
}

impl Toy {
    pub fn new(channels: usize, chunk: usize) -> Toy {
        Toy { channels, chunk, last: vec![0.0; channels], calls: 0 }
    }
    fn produced(&self) -> usize {
        // varies with the call count, always below output_frames_next
        self.chunk / 2 + (self.calls % 2)
    }
}

impl Resampler<f64> for Toy {
    fn process_into_buffer<Vin: AsRef<[f64]>, Vout: AsMut<[f64]>>(&mut self, wave_in: &[Vin], wave_out: &mut [Vout], mask: Option<&[bool]>) -> ResampleResult<(usize, usize)> {
        if wave_in.len() != self.channels {
            return Err(ResampleError::WrongNumberOfInputChannels { expected: self.channels, actual: wave_in.len() });
        }
        if wave_out.len() != self.channels {
            return Err(ResampleError::WrongNumberOfOutputChannels { expected: self.channels, actual: wave_out.len() });
        }
        if let Some(m) = mask {
            if m.len() != self.channels {
                return Err(ResampleError::WrongNumberOfMaskChannels { expected: self.channels, actual: m.len() });
            }
        }
        let need = self.input_frames_next();
        let n = self.produced();
        for c in 0..self.channels {
            if !mask.map(|m| m[c]).unwrap_or(true) {
                continue;
            }
            if wave_in[c].as_ref().len() < need {
                return Err(ResampleError::InsufficientInputBufferSize { channel: c, expected: need, actual: wave_in[c].as_ref().len() });
            }
            if wave_out[c].as_mut().len() < n {
                return Err(ResampleError::InsufficientOutputBufferSize { channel: c, expected: n, actual: wave_out[c].as_mut().len() });
            }
        }
        for c in 0..self.channels {
            if !mask.map(|m| m[c]).unwrap_or(true) {
                continue;
            }
            let x = wave_in[c].as_ref();
            let y = wave_out[c].as_mut();
            for k in 0..n {
                // uses the look-ahead frames x[chunk], x[chunk + 1] for the last outputs
                y[k] = 0.5 * (x[2 * k] + x[2 * k + 1]) + 0.25 * self.last[c] + 0.125 * x[(2 * k + 2).min(need - 1)];
            }
            self.last[c] = x[self.chunk - 1];
        }
        self.calls += 1;
        // consumed: the chunk only, the look-ahead frames must be presented again
        Ok((self.chunk, n))
    }
    fn input_frames_max(&self) -> usize {
        self.chunk + 2
    }
    fn input_frames_next(&self) -> usize {
        self.chunk + 2
    }
    fn nbr_channels(&self) -> usize {
        self.channels
    }
    fn output_frames_max(&self) -> usize {
        self.chunk / 2 + 3
    }
    fn output_frames_next(&self) -> usize {
        self.chunk / 2 + 3
    }
    fn output_delay(&self) -> usize {
        1
    }
    fn set_resample_ratio(&mut self, _r: f64, _ramp: bool) -> ResampleResult<()> {
        Err(ResampleError::SyncNotAdjustable)
    }
    fn set_resample_ratio_relative(&mut self, _r: f64, _ramp: bool) -> ResampleResult<()> {
        Err(ResampleError::SyncNotAdjustable)
    }
    fn reset(&mut self) {
        self.last.iter_mut().for_each(|v| *v = 0.0);
        self.calls = 0;
    }
    // overridden allocation helpers: page-sized buffers
    fn input_buffer_allocate(&self, filled: bool) -> Vec<Vec<f64>> {
        let n = (self.chunk + 2 + 63) / 64 * 64 + 64;
        (0..self.channels).map(|_| if filled { vec![0.0; n] } else { Vec::with_capacity(n) }).collect()
    }
    fn output_buffer_allocate(&self, filled: bool) -> Vec<Vec<f64>> {
        let n = (self.chunk / 2 + 3 + 63) / 64 * 64 + 64;
        (0..self.channels).map(|_| if filled { vec![0.0; n] } else { Vec::with_capacity(n) }).collect()
    }
}

fn bits(v: &[Vec<f64>], n: usize) -> Vec<Vec<u64>> {
    v.iter().map(|c| c.iter().take(n).map(|x| x.to_bits()).collect()).collect()
}

/// One round of wrapper-vs-core comparisons on the toy implementor.
pub fn check_user_type_wrappers(out: &mut Outcome, seed: u64) {
    let mut rng = Rng::new(seed ^ 0x70F);
    let channels = rng.usize_in(1, 4);
    let chunk = 2 * rng.usize_in(2, 40);
    let mask: Option<Vec<bool>> = if rng.chance(0.3) { Some((0..channels).map(|_| rng.chance(0.7)).collect()) } else { None };
    let m = mask.as_deref();
    let mut a = Toy::new(channels, chunk); // core calls
    let mut b = Toy::new(channels, chunk); // wrappers
    let mut c: Box<dyn rubato::VecResampler<f64>> = Box::new(Toy::new(channels, chunk)); // through the object-safe wrapper
    let fail = |out: &mut Outcome, what: String| out.push("C16", "user-type-wrapper-differs", 0, what);
    // allocation helpers must be forwarded, not re-derived
    let direct_out: Vec<usize> = Resampler::output_buffer_allocate(&a, true).iter().map(|v| v.len()).collect();
    let boxed_out: Vec<usize> = c.output_buffer_allocate(true).iter().map(|v| v.len()).collect();
    let direct_in: Vec<usize> = Resampler::input_buffer_allocate(&a, false).iter().map(|v| v.capacity()).collect();
    let boxed_in: Vec<usize> = c.input_buffer_allocate(false).iter().map(|v| v.capacity()).collect();
    if direct_out != boxed_out || direct_in.iter().zip(boxed_in.iter()).any(|(x, y)| y < x) {
        fail(out, format!("VecResampler allocation helpers give {:?}/{:?}, the implementor's own give {:?}/{:?}", boxed_out, boxed_in, direct_out, direct_in));
        return;
    }
    if [c.input_frames_max(), c.input_frames_next(), c.output_frames_max(), c.output_frames_next(), c.output_delay(), c.nbr_channels()]
        != [a.input_frames_max(), a.input_frames_next(), a.output_frames_max(), a.output_frames_next(), a.output_delay(), Resampler::nbr_channels(&a)]
    {
        fail(out, "VecResampler getters differ from the implementor's".into());
        return;
    }
    for call in 0..rng.usize_in(2, 6) {
        let need = a.input_frames_next();
        let kind = rng.below(4);
        let valid = match kind {
            0 | 1 => need,
            2 => rng.usize_in(1, need),
            _ => 0,
        };
        let x: Vec<Vec<f64>> = (0..channels).map(|ch| (0..need).map(|k| if k < valid { crate::rng::noise(seed, ch, (call * 1000 + k) as u64) } else { 0.0 }).collect()).collect();
        let xs: Vec<Vec<f64>> = x.iter().map(|v| v[..valid].to_vec()).collect();
        // core: zero padded process_into_buffer
        let mut ya = vec![vec![f64::NAN; a.output_frames_next() + 5]; channels];
        let ra = a.process_into_buffer(&x, &mut ya, m);
        // wrappers on b and c
        let (rb, yb): (ResampleResult<(usize, usize)>, Vec<Vec<f64>>) = match kind {
            0 => match b.process(&x, m) {
                Ok(v) => {
                    let n = v.iter().enumerate().filter(|(i, _)| m.map(|mm| mm[*i]).unwrap_or(true)).map(|(_, c)| c.len()).next().unwrap_or(usize::MAX);
                    (Ok((usize::MAX, n)), v)
                }
                Err(e) => (Err(e), vec![]),
            },
            1 => {
                let mut y = vec![vec![f64::NAN; b.output_frames_next() + 5]; channels];
                let r = b.process_partial_into_buffer(Some(&x), &mut y, m);
                (r, y)
            }
            2 => {
                let mut y = vec![vec![f64::NAN; b.output_frames_next() + 5]; channels];
                let r = b.process_partial_into_buffer(Some(&xs), &mut y, m);
                (r, y)
            }
            _ => {
                let mut y = vec![vec![f64::NAN; b.output_frames_next() + 5]; channels];
                let r = b.process_partial_into_buffer(None::<&[Vec<f64>]>, &mut y, m);
                (r, y)
            }
        };
        let (rc, yc): (ResampleResult<(usize, usize)>, Vec<Vec<f64>>) = {
            let mut y = vec![vec![f64::NAN; c.output_frames_next() + 5]; channels];
            let r = match kind {
                0 | 1 => c.process_into_buffer(&x, &mut y, m),
                2 => c.process_partial_into_buffer(Some(&xs), &mut y, m),
                _ => c.process_partial_into_buffer(None, &mut y, m),
            };
            (r, y)
        };
        let (ia, na) = match ra {
            Ok(t) => t,
            Err(e) => {
                fail(out, format!("core call on the toy implementor failed: {}", e));
                return;
            }
        };
        for (who, r, y) in [("Resampler wrapper", &rb, &yb), ("VecResampler", &rc, &yc)] {
            match r {
                Err(e) => {
                    fail(out, format!("{} (kind {}) returned Err({}) where the zero-padded core call returned Ok(({}, {}))", who, kind, e, ia, na));
                    return;
                }
                Ok((i, n)) => {
                    let n_ok = *n == na || (*n == usize::MAX && m.map(|mm| mm.iter().all(|x| !x)).unwrap_or(false));
                    if (*i != usize::MAX && *i != ia) || !n_ok {
                        fail(out, format!("{} (kind {}, {} real frames of {}) returned ({}, {}), the zero-padded core call ({}, {})", who, kind, valid, need, i, n, ia, na));
                        return;
                    }
                    let active: Vec<usize> = (0..channels).filter(|ch| m.map(|mm| mm[*ch]).unwrap_or(true)).collect();
                    for ch in active {
                        if y.len() <= ch || bits(&y[ch..ch + 1], na) != bits(&ya[ch..ch + 1], na) {
                            fail(out, format!("{} (kind {}): channel {} output differs from the zero-padded core call", who, kind, ch));
                            return;
                        }
                    }
                }
            }
        }
    }
    out.cov.probe("user_type_wrapper_rounds", 1);
}
