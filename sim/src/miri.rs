//! In-process entry points for the Miri layers (no child processes, no files needed for generation).
//! `rsim miri C03 <start> <count>`: tiny valid histories, Miri is the UB oracle.
//! `rsim miri C18 <start> <count>`: tiny instances on genuinely concurrent threads, Miri's scheduler
//! (seeded, with preemption) decides the interleaving inside calls and its data-race detector is the oracle
//! for shared mutable state; digests are compared with an in-process solo run as well.

use crate::exec::*;
use crate::gen::*;
use crate::rng::{run_seed, Rng};
use crate::scenario::*;

pub fn tiny_dom() -> Dom {
    Dom { max_chunk: 24, max_channels: 2, max_sinc_len: 16, max_oversampling: 4, fft_cap: 12, edges: false, ..Dom::default() }
}

pub fn tiny_scenario(prop: &str, seed: u64) -> Scenario {
    let mut rng = Rng::new(seed);
    let dom = tiny_dom();
    let mut cfg = gen_config(&mut rng, &dom);
    cfg.chunk = cfg.chunk.min(24);
    if cfg.kind.is_fft() {
        // tiny blocks: small coprime pairs only
        let pairs = [(1usize, 1usize), (1, 2), (2, 1), (3, 2), (2, 3), (4, 3), (3, 4), (5, 4)];
        let p = *rng.pick(&pairs);
        cfg.rate_in = p.0;
        cfg.rate_out = p.1;
        cfg.chunk = cfg.chunk.min(12);
    }
    if cfg.ratio < 0.25 {
        cfg.ratio = 0.25 + rng.unit();
    }
    cfg.max_rel = cfg.max_rel.min(3.0);
    let n = rng.usize_in(3, 7);
    let mix = OpMix::swarm(&mut rng, n);
    let (p, ops, t) = gen_history(&mut rng, &cfg, &mix);
    Scenario { property: prop.to_string(), seed, profile: format!("miri-tiny-{}", p), config: cfg, signal: gen_signal(&mut rng), ops, twin: Twin::None, sim_seconds: t, repeat: 0 }
}

fn run_one(sc: &Scenario) -> Vec<String> {
    let t = run_cfg(&sc.config, &sc.signal, &sc.ops, RunOpts { keep_output: false, ..Default::default() });
    let mut v: Vec<String> = t.viol.iter().filter(|v| v.prop == "C03").map(|v| format!("{}: {}", v.clause, v.detail)).collect();
    if let Some(e) = &t.construct_err {
        v.push(format!("construction failed: {}", e));
    }
    v
}

pub fn miri_main(prop: &str, start: u64, count: u64, base: u64) -> i32 {
    let mut bad = 0;
    match prop {
        "C03" => {
            for i in start..start + count {
                let seed = run_seed(base, "C03-miri", i);
                let sc = tiny_scenario("C03", seed);
                println!("MIRI-BEGIN C03 {} {}", i, serde_json::to_string(&sc).unwrap());
                let v = run_one(&sc);
                if v.iter().any(|x| !x.contains("subindex")) {
                    bad += 1;
                    println!("MIRI-VIOL C03 {} {:?}", i, v);
                }
                println!("MIRI-END C03 {} ops={} kind={}", i, sc.ops.len(), sc.config.kind.name());
            }
        }
        "C03S" => {
            // sinc kinds only, built with the SIMD target features on: Miri interprets the AVX and SSE kernels
            // (the H1 mask picks which one the real dispatch selects)
            for i in start..start + count {
                let seed = run_seed(base, "C03S-miri", i);
                let mut sc = tiny_scenario("C03", seed);
                let mut rng = Rng::new(seed ^ 0x51D);
                sc.config.kind = if rng.chance(0.5) { Kind::SincIn } else { Kind::SincOut };
                sc.config.cpu_mask = *rng.pick(&[0u8, 0, 2, 6, 7]);
                sc.config.sinc_len = *rng.pick(&[8usize, 16, 24]);
                sc.config.oversampling = *rng.pick(&[2usize, 3, 4]);
                if sc.config.max_rel > 1.0 {
                    sc.ops.insert(0, Op::SetRatio { rel: 1.0 / sc.config.max_rel, ramp: rng.chance(0.5), relative_api: false });
                }
                sc.ops.retain(|o| !matches!(o, Op::SetChunk { .. }) || sc.config.kind.is_sinc());
                println!("MIRI-BEGIN C03S {} {}", i, serde_json::to_string(&sc).unwrap());
                let v = run_one(&sc);
                if !v.is_empty() {
                    bad += 1;
                    println!("MIRI-VIOL C03S {} {:?}", i, v);
                }
                println!("MIRI-END C03S {} ops={} kind={} mask={}", i, sc.ops.len(), sc.config.kind.name(), sc.config.cpu_mask);
            }
        }
        "C18" => {
            for i in start..start + count {
                let seed = run_seed(base, "C18-miri", i);
                let mut rng = Rng::new(seed);
                let nthreads = rng.usize_in(2, 4);
                let mut specs: Vec<Scenario> = Vec::new();
                for k in 0..nthreads {
                    let mut sc = tiny_scenario("C18", crate::rng::mix(seed ^ k as u64));
                    if k > 0 && rng.chance(0.5) {
                        // identical configuration on another thread
                        sc = specs[0_usize].clone();
                    }
                    specs.push(sc);
                }
                println!("MIRI-BEGIN C18 {} threads={} kinds={:?}", i, nthreads, specs.iter().map(|s: &Scenario| s.config.kind.name()).collect::<Vec<_>>());
                // solo digests first (same process: Miri's race detector is the main oracle here)
                let solo: Vec<u64> = specs.iter().map(|sc| run_cfg(&sc.config, &sc.signal, &sc.ops, RunOpts { keep_output: false, ..Default::default() }).digest).collect();
                let handles: Vec<_> = specs
                    .iter()
                    .cloned()
                    .map(|sc| std::thread::spawn(move || run_cfg(&sc.config, &sc.signal, &sc.ops, RunOpts { keep_output: false, ..Default::default() }).digest))
                    .collect();
                for (k, h) in handles.into_iter().enumerate() {
                    match h.join() {
                        Ok(d) => {
                            if d != solo[k] {
                                bad += 1;
                                println!("MIRI-VIOL C18 {} instance {} digest {:016x} differs from solo {:016x}", i, k, d, solo[k]);
                            }
                        }
                        Err(_) => {
                            bad += 1;
                            println!("MIRI-VIOL C18 {} instance {} thread panicked", i, k);
                        }
                    }
                }
                println!("MIRI-END C18 {} threads={}", i, nthreads);
            }
        }
        _ => return 2,
    }
    if bad > 0 {
        1
    } else {
        0
    }
}

/// Re-run one scenario file under Miri (replay of a Miri finding).
pub fn miri_eval(path: &str) -> i32 {
    let txt = std::fs::read_to_string(path).expect("read");
    let v: serde_json::Value = serde_json::from_str(&txt).expect("parse");
    let scv = if v.get("scenario").is_some() { v["scenario"].clone() } else { v };
    let sc: Scenario = serde_json::from_value(scv).expect("scenario");
    let v = run_one(&sc);
    println!("MIRI-EVAL {:?}", v);
    if v.is_empty() {
        0
    } else {
        1
    }
}
