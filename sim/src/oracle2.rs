//! Twin-based property drivers (C05, C06, C10, C11, C12, C13, C15, C16, C17, C18).

use crate::exec::*;
use crate::gen::*;
use crate::oracle::{absorb, tier_budget, Outcome};
use crate::rng::Rng;
use crate::scenario::*;

fn base(prop: &str, seed: u64) -> (Rng, Scenario) {
    let rng = Rng::new(seed);
    let sc = Scenario {
        property: prop.to_string(),
        seed,
        profile: String::new(),
        config: Config {
            kind: Kind::FastIn,
            f32: false,
            ratio: 1.0,
            rate_in: 1,
            rate_out: 1,
            max_rel: 1.0,
            chunk: 1,
            sub_chunks: 1,
            channels: 1,
            sinc_len: 8,
            oversampling: 1,
            interp: 0,
            window: 0,
            f_cutoff: 0.95,
            degree: 0,
            kernel: Kernel::Auto,
            cpu_mask: 0,
            mask: None,
            empty_inactive: false,
        },
        signal: Signal::Index,
        ops: vec![],
        twin: Twin::None,
        sim_seconds: 0.0,
        repeat: 0,
    };
    (rng, sc)
}

fn q(tier: Tier, a: usize, b: usize) -> usize {
    if tier == Tier::Quick {
        a
    } else {
        b
    }
}

/// Compare SUT step `ia` with twin step `ib`: result, per-call digest (output bits), getters after.
fn cmp_step(out: &mut Outcome, prop: &str, clause: &str, a: &StepRec, b: &StepRec, what: &str) -> bool {
    let same_res = match (&a.res, &b.res) {
        // n_out == usize::MAX: not observable (allocating wrapper with every channel masked)
        (StepRes::Proc { n_in: ai, n_out: ao }, StepRes::Proc { n_in: bi, n_out: bo }) => ai == bi && (ao == bo || *ao == usize::MAX || *bo == usize::MAX),
        (x, y) => x == y,
    };
    if !same_res {
        out.push(prop, clause, a.op, format!("{}: result {:?} vs twin {:?}", what, a.res, b.res));
        return false;
    }
    if a.post != b.post {
        out.push(prop, clause, a.op, format!("{}: getters after the step {:?} vs twin {:?}", what, a.post, b.post));
        return false;
    }
    if matches!(a.res, StepRes::Proc { .. }) && a.digest != b.digest {
        out.push(prop, clause, a.op, format!("{}: output samples differ bit-wise from the twin's (call returning {:?})", what, a.res));
        return false;
    }
    true
}

fn died(out: &mut Outcome, prop: &str, t: &Trace, who: &str) -> bool {
    if let Some(e) = &t.construct_err {
        out.push(prop, "call-did-not-complete", 0, format!("{} construction failed: {}", who, e));
        return true;
    }
    if let Some((i, m)) = &t.died {
        out.push(prop, "call-did-not-complete", *i, format!("{} died: {}", who, m));
        return true;
    }
    false
}

// =======================================================================================
// C10  reset equals fresh
// =======================================================================================

fn gen_c10(seed: u64, tier: Tier) -> Scenario {
    let (mut rng, mut sc) = base("C10", seed);
    let dom = Dom { custom_kernels: true, wild: true, ..Dom::default() };
    sc.config = gen_config(&mut rng, &dom);
    sc.signal = gen_signal(&mut rng);
    if rng.chance(if tier == Tier::Quick { 6.0e-4 } else { 2.5e-4 }) {
        // frame counts above 2^24: reset right after construction or after a call or two
        sc.config = gen_huge_config(&mut rng);
        sc.signal = Signal::Const { v: 0.25 };
        let mut ops = Vec::new();
        for _ in 0..rng.usize_in(0, 2) {
            ops.push(Op::process());
        }
        let prefix = ops.len();
        ops.push(Op::Reset);
        ops.push(Op::SetMask { mask: None });
        ops.push(Op::process());
        if rng.chance(0.5) {
            ops.push(Op::process());
        }
        sc.profile = "huge-frame-counts+reset".into();
        sc.ops = ops;
        sc.twin = Twin::Reset { prefix };
        return sc;
    }
    if sc.config.kind.is_async() && rng.chance(0.05) {
        // the directed extreme configurations (rounding coincidences in the size formulas), history by this generator
        let (cfg, _) = gen_extreme_directed(&mut rng, sc.config.kind);
        sc.config = cfg;
    }
    let n = ops_budget(&sc.config, tier_budget(tier), 6, q(tier, 70, 100), &mut rng);
    let npre = rng.usize_in(0, (n * 2 / 3).max(1));
    let mut m = OpMix::swarm(&mut rng, npre);
    m.w_reset *= 0.3;
    let (p, mut ops, t) = gen_history(&mut rng, &sc.config, &m);
    // sprinkle failed calls into the prefix ("whatever happened before")
    if rng.chance(0.4) && !ops.is_empty() {
        for _ in 0..rng.usize_in(1, 3) {
            let at = rng.usize_in(0, ops.len());
            ops.insert(at, gen_bad_op(&mut rng, &sc.config));
        }
    }
    // a ramp that is set but not consumed, right before the reset
    if sc.config.kind.is_async() && sc.config.max_rel > 1.0 && rng.chance(0.4) {
        ops.push(Op::SetRatio { rel: gen_rel(&mut rng, &sc.config, true), ramp: true, relative_api: rng.chance(0.5) });
    }
    if sc.config.kind.is_sinc() && rng.chance(0.3) {
        ops.push(Op::SetChunk { n: gen_chunk(&mut rng, sc.config.chunk) });
    }
    // hundreds of resets in a row (a player that resets on every seek), with a masked channel in between
    if rng.chance(0.02) {
        if sc.config.channels >= 1 {
            let mut mk = vec![true; sc.config.channels];
            mk[rng.below(sc.config.channels as u64) as usize] = false;
            ops.push(Op::SetMask { mask: Some(mk) });
            ops.push(Op::process());
        }
        for _ in 0..*rng.pick(&[255usize, 256, 257, 511, 512, 300]) {
            ops.push(Op::Reset);
        }
    }
    // the caller passed varying masks before the reset
    if rng.chance(0.4) {
        let pm = rng.uniform(0.05, 0.4);
        sprinkle(&mut rng, &sc.config, &mut ops, pm, 0.0);
    }
    // the last thing before the reset is a rejected call that carried another mask
    if sc.config.channels > 0 && rng.chance(0.15) {
        ops.push(gen_set_mask(&mut rng, &sc.config));
        let mut b = gen_bad_op(&mut rng, &sc.config);
        while matches!(b, Op::Bad { call: BadCall::ForeignUnwind { .. }, .. }) {
            b = gen_bad_op(&mut rng, &sc.config);
        }
        ops.push(b);
    }
    let prefix = ops.len();
    ops.push(Op::Reset);
    ops.push(Op::SetMask { mask: sc.config.mask.clone() });
    let nsuf = (n - npre.min(n)).clamp(3, 40);
    let mut m2 = OpMix::swarm(&mut rng, nsuf);
    m2.w_reset = 0.0;
    let mut suffix = if rng.chance(0.5) { gen_ops_uniform(&mut rng, &sc.config, &m2) } else { gen_ops_adversarial(&mut rng, &sc.config, &m2) };
    // ... and keeps varying them afterwards (a channel skipped right after the reset must not find old data later)
    if sc.config.channels > 0 && rng.chance(0.35) {
        let pm = rng.uniform(0.1, 0.5);
        sprinkle(&mut rng, &sc.config, &mut suffix, pm, 0.0);
    }
    ops.extend(suffix);
    sc.profile = format!("{}+reset+suffix", p);
    sc.sim_seconds = t;
    sc.ops = ops;
    sc.twin = Twin::Reset { prefix };
    sc
}

fn eval_c10(sc: &Scenario) -> Outcome {
    let mut out = Outcome::default();
    let prefix = match sc.twin {
        Twin::Reset { prefix } => prefix.min(sc.ops.len().saturating_sub(1)),
        _ => 0,
    };
    let a = run_cfg(&sc.config, &sc.signal, &sc.ops, RunOpts { keep_output: false, ..Default::default() });
    absorb(&mut out, "C10", &sc.config, &sc.ops, &a, &[]);
    if died(&mut out, "C10", &a, "instance under test") {
        return out;
    }
    // the reset step
    let rs = match a.steps.iter().find(|s| s.op == prefix && s.res == StepRes::Reset) {
        Some(s) => s.clone(),
        None => return out, // scenario without a reset at `prefix` (minimiser artefact): nothing to compare
    };
    let suffix: Vec<Op> = sc.ops[prefix + 1..].to_vec();
    let b = run_cfg(&sc.config, &sc.signal, &suffix, RunOpts { keep_output: false, start_cursor: rs.cursor, ..Default::default() });
    absorb(&mut out, "C10", &sc.config, &suffix, &b, &[]);
    if died(&mut out, "C10", &b, "fresh twin") {
        return out;
    }
    if rs.post != b.init {
        out.push("C10", "getters-after-reset", prefix, format!("getters after reset {:?} vs freshly constructed {:?}", rs.post, b.init));
        return out;
    }
    out.cov.probe("resets_compared", 1);
    for s in a.steps.iter().filter(|s| s.op > prefix) {
        let j = s.op - prefix - 1;
        match b.steps.get(j) {
            Some(t) => {
                if !cmp_step(&mut out, "C10", "suffix-differs-from-fresh", s, t, "after reset") {
                    break;
                }
            }
            None => break,
        }
    }
    out
}

// =======================================================================================
// malformed / boundary op generators (F3, F4)
// =======================================================================================

pub fn gen_bad_call(rng: &mut Rng) -> BadCall {
    let delta = *rng.pick(&[-1i8, 1, 1, 2, -2, 3]);
    let zero = rng.chance(0.2);
    if rng.chance(0.08) {
        return BadCall::ForeignUnwind { seed: rng.next() as u32 };
    }
    match rng.below(5) {
        0 => BadCall::InChannels { delta, zero },
        1 => BadCall::OutChannels { delta, zero },
        2 => BadCall::MaskLen { delta, zero },
        3 => BadCall::InShort { ch: rng.below(256) as u8, missing: *rng.pick(&[1u32, 1, 2, 7, 100, u32::MAX]) },
        _ => BadCall::OutShort { ch: rng.below(256) as u8, missing: *rng.pick(&[1u32, 1, 2, 7, 100, u32::MAX]) },
    }
}

pub fn gen_bad_op(rng: &mut Rng, _cfg: &Config) -> Op {
    let call = gen_bad_call(rng);
    let path = match call {
        BadCall::OutChannels { .. } | BadCall::OutShort { .. } => *rng.pick(&[Path::IntoBuffer, Path::VecIntoBuffer, Path::PartialInto, Path::VecPartialInto, Path::IntoBuffer]),
        BadCall::InShort { .. } => *rng.pick(&[Path::IntoBuffer, Path::VecIntoBuffer, Path::Wrapper, Path::VecWrapper, Path::IntoBuffer]),
        _ => *rng.pick(&ALL_PATHS),
    };
    Op::Bad { call, path }
}

pub fn gen_ctl_val(rng: &mut Rng) -> CtlVal {
    match rng.below(14) {
        0 => CtlVal::UpperUlp(0),
        1 => CtlVal::LowerUlp(0),
        2 => CtlVal::UpperUlp(*rng.pick(&[1i8, 2, 3, -1, -2, -3])),
        3 => CtlVal::LowerUlp(*rng.pick(&[1i8, 2, 3, -1, -2, -3])),
        4 => CtlVal::Nan,
        5 => CtlVal::PosInf,
        6 => CtlVal::NegInf,
        7 => CtlVal::Zero,
        8 => CtlVal::NegZero,
        9 => CtlVal::Neg(rng.uniform(0.1, 4.0)),
        10 => CtlVal::Subnormal,
        11 => CtlVal::Huge,
        12 => CtlVal::Outside(if rng.chance(0.5) { rng.uniform(1.0, 3.0) } else { rng.uniform(0.1, 1.0) }),
        _ => CtlVal::Rel(rng.uniform(0.5, 2.0)),
    }
}

pub fn gen_chunk_val(rng: &mut Rng, max: usize) -> ChunkVal {
    match rng.below(6) {
        0 => ChunkVal::Zero,
        1 => ChunkVal::One,
        2 => ChunkVal::Max,
        3 => ChunkVal::MaxPlus1,
        4 => ChunkVal::UsizeMax,
        _ => ChunkVal::N(rng.usize_in(0, 2 * max + 2)),
    }
}

// =======================================================================================
// C13 malformed arguments
// =======================================================================================

fn gen_c13(seed: u64, tier: Tier) -> Scenario {
    let (mut rng, mut sc) = base("C13", seed);
    let dom = Dom { edges: false, custom_kernels: true, wild: true, ..Dom::default() };
    sc.config = gen_config(&mut rng, &dom);
    sc.signal = gen_signal(&mut rng);
    if rng.chance(0.01) {
        // the degenerate chunk size 0 (accepted by every constructor): no processing call is made on it (such an
        // instance is outside the sampled domain of valid histories), but a wrong channel count or mask length is
        // still reported as such, not accepted and not a panic
        sc.config.chunk = 0;
        let mut ops = Vec::new();
        for _ in 0..rng.usize_in(1, 6) {
            let delta = *rng.pick(&[-1i8, 1, 1, 2, -2, 3]);
            let zero = rng.chance(0.2);
            let call = match rng.below(3) {
                0 => BadCall::InChannels { delta, zero },
                1 => BadCall::OutChannels { delta, zero },
                _ => BadCall::MaskLen { delta, zero },
            };
            let path = match call {
                BadCall::OutChannels { .. } => *rng.pick(&[Path::IntoBuffer, Path::VecIntoBuffer, Path::PartialInto, Path::VecPartialInto]),
                _ => *rng.pick(&ALL_PATHS),
            };
            ops.push(Op::Bad { call, path });
        }
        sc.profile = "chunk-zero+malformed".into();
        sc.twin = Twin::Skip { idx: (0..ops.len()).collect() };
        sc.ops = ops;
        return sc;
    }
    let n = ops_budget(&sc.config, tier_budget(tier), 6, q(tier, 40, 80), &mut rng);
    let m = OpMix::swarm(&mut rng, n);
    let (p, mut ops, t) = gen_history(&mut rng, &sc.config, &m);
    // fault enumeration: at k points of the live history, a burst of malformed calls (each carrying exactly
    // one malformation); a failed call changes nothing, so a burst can hold many shapes
    let points = rng.usize_in(1, 4);
    let mut idx = Vec::new();
    let long_burst = rng.chance(0.02);
    for _ in 0..points {
        let at = rng.usize_in(0, ops.len());
        // rarely: hundreds of rejected calls in a row (a caller retrying in a loop)
        let burst = if long_burst { rng.usize_in(101, 400) } else { rng.usize_in(1, 6) };
        for _ in 0..burst {
            ops.insert(at, gen_bad_op(&mut rng, &sc.config));
        }
    }
    for (i, op) in ops.iter().enumerate() {
        if matches!(op, Op::Bad { .. }) {
            idx.push(i);
        }
    }
    sc.profile = format!("{}+malformed", p);
    sc.sim_seconds = t;
    sc.ops = ops;
    sc.twin = Twin::Skip { idx };
    sc
}

fn expected_bad(cfg: &Config, call: &BadCall, s: &StepRec) -> E {
    let ch = cfg.channels;
    match call {
        BadCall::InChannels { .. } => E::WrongNumberOfInputChannels { expected: ch, actual: s.ctl_bits as usize },
        BadCall::OutChannels { .. } => E::WrongNumberOfOutputChannels { expected: ch, actual: s.ctl_bits as usize },
        BadCall::MaskLen { .. } => E::WrongNumberOfMaskChannels { expected: ch, actual: s.ctl_bits as usize },
        BadCall::ForeignUnwind { .. } => unreachable!(),
        BadCall::InShort { .. } => E::InsufficientInputBufferSize { channel: s.ctl_chunk, expected: s.pre.in_next, actual: s.ctl_bits as usize },
        BadCall::OutShort { .. } => E::InsufficientOutputBufferSize { channel: s.ctl_chunk, expected: s.pre.out_next, actual: s.ctl_bits as usize },
    }
}

/// constructor faults: one invalid argument, documented variant expected
fn check_constructor_faults(out: &mut Outcome, sc: &Scenario) {
    use crate::sut::{construct_result, CErr};
    let mut rng = Rng::new(sc.seed ^ 0xC0175);
    let mut cfg = sc.config.clone();
    cfg.kernel = Kernel::Scalar; // cheap
    cfg.sinc_len = 8;
    cfg.oversampling = 2;
    cfg.chunk = cfg.chunk.min(64);
    if rng.chance(0.4) {
        // the remaining arguments are arbitrary, zeros included: the documented error comes first whatever they are
        cfg.kernel = Kernel::Auto;
        if rng.chance(0.4) {
            cfg.chunk = 0;
        }
        if rng.chance(0.4) {
            cfg.sub_chunks = 0;
        }
        if rng.chance(0.3) {
            cfg.channels = 0;
            cfg.mask = None;
        }
        if rng.chance(0.3) {
            cfg.sinc_len = 0;
        }
        if rng.chance(0.3) {
            cfg.oversampling = 0;
        }
        out.cov.probe("constructor_fault_with_zero_arguments", 1);
    }
    let which = rng.below(3);
    let expect;
    if cfg.kind.is_async() {
        if which == 0 {
            let r = *rng.pick(&[0.0f64, -1.0, -0.0, -1e-300, f64::NEG_INFINITY]);
            cfg.ratio = r;
            expect = CErr::InvalidRatio(r.to_bits());
        } else {
            let m = *rng.pick(&[0.5f64, 0.9999999999999999, -1.0, 0.0, -0.0]);
            cfg.max_rel = m;
            expect = CErr::InvalidRelativeRatio(m.to_bits());
        }
    } else {
        let (i, o) = *rng.pick(&[(0usize, 48000usize), (44100, 0), (0, 0)]);
        cfg.rate_in = i;
        cfg.rate_out = o;
        expect = CErr::InvalidSampleRate { input: i, output: o };
    }
    let r = std::panic::catch_unwind(|| if cfg.f32 { construct_result::<f32>(&cfg) } else { construct_result::<f64>(&cfg) });
    out.cov.fault("F3_constructor_fault", 1);
    match r {
        Err(_) => out.push("C13", "constructor-panicked", 0, format!("constructor panicked for {:?} ratio {} max_rel {} rates {}:{} : {}", cfg.kind, cfg.ratio, cfg.max_rel, cfg.rate_in, cfg.rate_out, LAST_PANIC.with(|p| p.borrow().clone()))),
        Ok(Ok(())) => out.push("C13", "constructor-accepted-invalid", 0, format!("constructor accepted {:?} ratio {} max_rel {} rates {}:{}", cfg.kind, cfg.ratio, cfg.max_rel, cfg.rate_in, cfg.rate_out)),
        Ok(Err(e)) => {
            if e != expect {
                out.push("C13", "constructor-wrong-error", 0, format!("constructor returned {:?}, documented {:?}", e, expect));
            }
        }
    }
}

fn eval_c13(sc: &Scenario) -> Outcome {
    let mut out = Outcome::default();
    check_constructor_faults(&mut out, sc);
    let a = run_cfg(&sc.config, &sc.signal, &sc.ops, RunOpts { keep_output: false, ..Default::default() });
    absorb(&mut out, "C13", &sc.config, &sc.ops, &a, &[]);
    // a panic on a malformed call is this property's own clause
    if let Some((i, m)) = &a.died {
        if matches!(sc.ops.get(*i), Some(Op::Bad { .. })) {
            out.viol.retain(|v| v.clause != "call-did-not-complete");
            out.push("C13", "malformed-call-panicked", *i, format!("{:?}: {}", sc.ops[*i], m));
            return out;
        }
    }
    if died(&mut out, "C13", &a, "instance under test") {
        out.viol.dedup_by(|x, y| x.clause == y.clause);
        return out;
    }
    // per bad call: exact error, nothing written
    let mut skipped = Vec::new();
    for s in &a.steps {
        if let Op::Bad { call, path } = &sc.ops[s.op] {
            skipped.push(s.op);
            match &s.res {
                StepRes::Skipped => continue,
                StepRes::ProcErr(e) => {
                    let exp = expected_bad(&sc.config, call, s);
                    if *e != exp {
                        out.push("C13", "wrong-error", s.op, format!("{:?} via {:?} returned {:?}, expected {:?}", call, path, e, exp));
                    }
                    out.cov.probe(&format!("bad_{}", exp.variant()), 1);
                }
                other => out.push("C13", "malformed-call-accepted", s.op, format!("{:?} via {:?} returned {:?}", call, path, other)),
            }
            if !s.untouched {
                out.push("C13", "output-written-by-failed-call", s.op, format!("{:?} via {:?}: output buffers no longer all sentinel", call, path));
            }
            if s.pre != s.post {
                out.push("C13", "getters-changed-by-failed-call", s.op, format!("{:?} -> {:?}", s.pre, s.post));
            }
        }
    }
    if !out.viol.is_empty() {
        return out;
    }
    // twin that never saw the bad calls
    let ops_b: Vec<Op> = sc.ops.iter().enumerate().filter(|(i, _)| !skipped.contains(i)).map(|(_, o)| o.clone()).collect();
    let map: Vec<usize> = (0..sc.ops.len()).filter(|i| !skipped.contains(i)).collect();
    let b = run_cfg(&sc.config, &sc.signal, &ops_b, RunOpts { keep_output: false, ..Default::default() });
    absorb(&mut out, "C13", &sc.config, &ops_b, &b, &[]);
    if died(&mut out, "C13", &b, "twin without the malformed calls") {
        return out;
    }
    for t in &b.steps {
        let ia = map[t.op];
        if let Some(s) = a.steps.iter().find(|s| s.op == ia) {
            if !cmp_step(&mut out, "C13", "state-changed-by-failed-call", s, t, "after malformed call(s)") {
                break;
            }
        }
    }
    out
}

// =======================================================================================
// C12 control ranges
// =======================================================================================

fn gen_c12(seed: u64, tier: Tier) -> Scenario {
    let (mut rng, mut sc) = base("C12", seed);
    let dom = Dom { edges: false, custom_kernels: true, zero_channels: true, wild: true, ..Dom::default() };
    sc.config = gen_config(&mut rng, &dom);
    // make "interesting" original/max pairs frequent
    if rng.chance(0.3) {
        sc.config.max_rel = *rng.pick(&[1.0, 1.1, 1.5, 2.0, 3.0, 10.0, 1.0000000000000002, 1.41498]);
    } else if rng.chance(0.15) {
        // integer ranges (1/(1/k) does not always round back to k), also with an integer original ratio
        sc.config.max_rel = rng.usize_in(2, 200) as f64;
        if rng.chance(0.5) {
            sc.config.ratio = *rng.pick(&[1.0, 2.0, 0.5, 4.0]);
        }
        sc.config.chunk = sc.config.chunk.min(64);
        sanitize(&mut sc.config);
    }
    if sc.config.kind.is_async() && rng.chance(0.04) {
        // "all original ratios": far from 1 in either direction (1e-5.5 .. 1e5.5); tiny cheap instances
        let e = rng.uniform(2.0, 5.5) * if rng.chance(0.5) { 1.0 } else { -1.0 };
        sc.config.ratio = if rng.chance(0.3) { 10f64.powf(e).round().max(1.0).powf(e.signum()) } else { 10f64.powf(e) };
        sc.config.max_rel = *rng.pick(&[1.0, 1.5, 2.0, 2.0, 10.0, 1.1, 3.7]);
        sc.config.chunk = rng.usize_in(1, 16);
        sc.config.channels = sc.config.channels.min(1);
        if sc.config.kernel != Kernel::Custom {
            sc.config.sinc_len = 8;
        }
        sc.config.oversampling = sc.config.oversampling.min(16);
        if sc.config.oversampling == 1 && sc.config.interp >= 2 {
            sc.config.interp = 1;
        }
        sc.config.mask = None;
        sanitize(&mut sc.config);
    }
    if sc.config.kind.is_async() && sc.config.max_rel > 1.0 && rng.chance(0.12) {
        // chunk sizes for which the frame count at the *lowest* (or highest) ratio is an exact integer: size formulas
        // evaluated at the bound then sit on a rounding edge
        let m = sc.config.max_rel;
        let r = sc.config.ratio;
        for _ in 0..300 {
            let c = rng.usize_in(1, 4096);
            let lo = c as f64 * m / r;
            let hi = c as f64 * r * m;
            if lo.fract() == 0.0 || hi.fract() == 0.0 || (c as f64 / (r / m)).fract() == 0.0 {
                sc.config.chunk = c;
                sanitize(&mut sc.config);
                break;
            }
        }
    }
    sc.signal = gen_signal(&mut rng);
    let n = ops_budget(&sc.config, tier_budget(tier), 5, q(tier, 30, 60), &mut rng);
    let m = OpMix::swarm(&mut rng, n);
    let (p, mut ops, t) = gen_history(&mut rng, &sc.config, &m);
    let points = rng.usize_in(1, 4);
    for pt in 0..points {
        // the first burst often hits the instance fresh, or right after a reset
        let at = if pt == 0 && rng.chance(0.35) {
            if rng.chance(0.5) || ops.is_empty() {
                0
            } else {
                let k = rng.usize_in(0, ops.len());
                ops.insert(k, Op::Reset);
                k + 1
            }
        } else {
            rng.usize_in(0, ops.len())
        };
        // enumerate every class at this point (rejected ones change nothing; accepted ones are valid changes)
        let mut burst: Vec<Op> = Vec::new();
        let classes: Vec<CtlVal> = vec![
            CtlVal::UpperUlp(0),
            CtlVal::LowerUlp(0),
            CtlVal::UpperUlp(1),
            CtlVal::UpperUlp(-1),
            CtlVal::LowerUlp(1),
            CtlVal::LowerUlp(-1),
            CtlVal::UpperUlp(*rng.pick(&[2i8, 3, -2, -3])),
            CtlVal::LowerUlp(*rng.pick(&[2i8, 3, -2, -3])),
            CtlVal::Nan,
            CtlVal::PosInf,
            CtlVal::NegInf,
            CtlVal::Zero,
            CtlVal::NegZero,
            CtlVal::Neg(rng.uniform(0.1, 4.0)),
            CtlVal::Subnormal,
            CtlVal::Huge,
            CtlVal::Outside(rng.uniform(1.0, 3.0)),
            CtlVal::Outside(rng.uniform(0.1, 1.0)),
            CtlVal::Rel(rng.uniform(0.3, 3.0)),
        ];
        let full = rng.chance(0.5);
        for c in classes {
            if full || rng.chance(0.3) {
                burst.push(Op::BadRatio { val: c, ramp: rng.chance(0.5), relative_api: rng.chance(0.5) });
            }
        }
        let p2 = ChunkVal::Pow2Plus { pow: *rng.pick(&[32u8, 32, 31, 33, 16, 63, 48]), delta: *rng.pick(&[1usize, 0, sc.config.chunk, sc.config.chunk / 2 + 1, 2]) };
        for cv in [ChunkVal::Zero, ChunkVal::One, ChunkVal::Max, ChunkVal::MaxPlus1, ChunkVal::UsizeMax, gen_chunk_val(&mut rng, sc.config.chunk), p2] {
            if full || rng.chance(0.3) {
                burst.push(Op::BadChunk { val: cv });
            }
        }
        // shuffle (Fisher-Yates)
        for i in (1..burst.len()).rev() {
            let j = rng.below(i as u64 + 1) as usize;
            burst.swap(i, j);
        }
        // three valid calls follow each burst
        burst.push(Op::process());
        burst.push(Op::process());
        burst.push(Op::process());
        for (k, b) in burst.into_iter().enumerate() {
            ops.insert(at + k, b);
        }
    }
    sc.profile = format!("{}+ctl-enumeration", p);
    sc.sim_seconds = t;
    sc.ops = ops;
    sc.twin = Twin::None;
    sc
}

fn accept_abs(cfg: &Config, r: f64) -> bool {
    r.is_finite() && r >= cfg.ratio / cfg.max_rel && r <= cfg.ratio * cfg.max_rel
}
fn accept_rel(cfg: &Config, x: f64) -> bool {
    x.is_finite() && x >= 1.0 / cfg.max_rel && x <= cfg.max_rel
}

fn eval_c12(sc: &Scenario) -> Outcome {
    let mut out = Outcome::default();
    let cfg = &sc.config;
    let a = run_cfg(cfg, &sc.signal, &sc.ops, RunOpts { keep_output: false, ..Default::default() });
    absorb(&mut out, "C12", cfg, &sc.ops, &a, &["C12"]);
    if died(&mut out, "C12", &a, "instance under test") {
        return out;
    }
    // twin ops: rejected calls removed, accepted relative calls replaced by the equivalent absolute call
    let mut ops_b: Vec<Op> = Vec::new();
    let mut map: Vec<usize> = Vec::new(); // twin op index -> SUT op index
    let mut pending_chunk: Option<usize> = None;
    for s in &a.steps {
        let op = &sc.ops[s.op];
        match op {
            Op::BadRatio { ramp, relative_api, val } => {
                let v = f64::from_bits(s.ctl_bits);
                let model_ok = cfg.kind.is_async() && if *relative_api { accept_rel(cfg, v) } else { accept_abs(cfg, v) };
                out.cov.probe(if model_ok { "ctl_ratio_model_accepts" } else { "ctl_ratio_model_rejects" }, 1);
                out.cov.probe(&format!("class_{}", match val { CtlVal::UpperUlp(k) => format!("upper{:+}", k), CtlVal::LowerUlp(k) => format!("lower{:+}", k), CtlVal::Rel(_) => "rel".into(), CtlVal::Outside(_) => "outside".into(), CtlVal::Neg(_) => "neg".into(), other => format!("{:?}", other) }), 1);
                match (&s.res, model_ok) {
                    (StepRes::CtlOk, true) => {
                        // equivalent absolute call for the twin
                        if *relative_api {
                            let abs = cfg.ratio * v;
                            if accept_abs(cfg, abs) {
                                ops_b.push(Op::BadRatio { val: CtlVal::Bits(abs.to_bits()), ramp: *ramp, relative_api: false });
                            } else {
                                ops_b.push(op.clone());
                            }
                        } else {
                            ops_b.push(op.clone());
                        }
                        map.push(s.op);
                    }
                    (StepRes::CtlErr(E::RatioOutOfBounds { .. }), false) if cfg.kind.is_async() => {
                        if s.pre != s.post {
                            out.push("C12", "rejected-call-changed-getters", s.op, format!("{:?} -> {:?}", s.pre, s.post));
                        }
                    }
                    (StepRes::CtlErr(E::SyncNotAdjustable), false) if !cfg.kind.is_async() => {}
                    (res, _) => {
                        out.push(
                            "C12",
                            if model_ok { "in-range-value-rejected" } else { "out-of-range-value-accepted" },
                            s.op,
                            format!("{} ({:e}, bits {:#x}) with original {} max {} [{}]: model says {}, call returned {:?}", if *relative_api { "set_resample_ratio_relative" } else { "set_resample_ratio" }, v, s.ctl_bits, cfg.ratio, cfg.max_rel, cfg.kind.name(), if model_ok { "accept" } else { "reject" }, res),
                        );
                        return out;
                    }
                }
            }
            Op::BadChunk { .. } => {
                let n = s.ctl_chunk;
                let exp: StepRes = if cfg.kind.is_sinc() {
                    if n >= 1 && n <= cfg.chunk {
                        StepRes::CtlOk
                    } else {
                        StepRes::CtlErr(E::InvalidChunkSize { max: cfg.chunk, requested: n })
                    }
                } else {
                    StepRes::CtlErr(E::ChunkSizeNotAdjustable)
                };
                out.cov.probe(if exp == StepRes::CtlOk { "ctl_chunk_model_accepts" } else { "ctl_chunk_model_rejects" }, 1);
                if s.res != exp {
                    out.push("C12", "chunk-size-acceptance", s.op, format!("set_chunk_size({}) on {} with construction chunk {}: expected {:?}, got {:?}", n, cfg.kind.name(), cfg.chunk, exp, s.res));
                    return out;
                }
                if exp == StepRes::CtlOk {
                    ops_b.push(Op::SetChunk { n });
                    map.push(s.op);
                    pending_chunk = Some(n);
                } else if s.pre != s.post {
                    out.push("C12", "rejected-call-changed-getters", s.op, format!("{:?} -> {:?}", s.pre, s.post));
                }
            }
            Op::SetChunk { .. } => {
                if s.res == StepRes::CtlOk {
                    pending_chunk = Some(s.ctl_chunk);
                }
                ops_b.push(op.clone());
                map.push(s.op);
            }
            Op::Reset => {
                pending_chunk = None;
                ops_b.push(op.clone());
                map.push(s.op);
            }
            Op::Process { .. } => {
                if let (Some(n), StepRes::Proc { n_in, n_out }) = (pending_chunk, &s.res) {
                    let got = if cfg.kind == Kind::SincIn { *n_in } else { *n_out };
                    if cfg.kind.is_sinc() && got != n && got != usize::MAX && !(cfg.mask.as_ref().map(|m| m.iter().all(|x| !x)).unwrap_or(false)) {
                        out.push("C12", "accepted-chunk-size-not-applied", s.op, format!("after set_chunk_size({}) the next call consumed/produced {}", n, got));
                        return out;
                    }
                    pending_chunk = None;
                }
                ops_b.push(op.clone());
                map.push(s.op);
            }
            _ => {
                ops_b.push(op.clone());
                map.push(s.op);
            }
        }
    }
    let b = run_cfg(cfg, &sc.signal, &ops_b, RunOpts { keep_output: false, ..Default::default() });
    absorb(&mut out, "C12", cfg, &ops_b, &b, &[]);
    if died(&mut out, "C12", &b, "twin without the rejected calls") {
        return out;
    }
    for t in &b.steps {
        let ia = map[t.op];
        if let Some(s) = a.steps.iter().find(|s| s.op == ia) {
            if !cmp_step(&mut out, "C12", "rejected-call-changed-state-or-relative-differs-from-absolute", s, t, "vs twin (rejected calls skipped, relative calls replaced by absolute)") {
                break;
            }
        }
    }
    out
}

// =======================================================================================
// C16 wrappers and partial processing
// =======================================================================================

fn gen_c16(seed: u64, tier: Tier) -> Scenario {
    let (mut rng, mut sc) = base("C16", seed);
    let dom = Dom { edges: false, custom_kernels: true, wild: true, ..Dom::default() };
    sc.config = gen_config(&mut rng, &dom);
    sc.signal = gen_signal(&mut rng);
    if rng.chance(if tier == Tier::Quick { 6.0e-4 } else { 2.5e-4 }) {
        // frame counts above 2^24: the allocating wrappers size their buffers from output_frames_next()
        sc.config = gen_huge_config(&mut rng);
        sc.signal = Signal::Const { v: 0.25 };
        let n = rng.usize_in(1, 3);
        let mut ops = Vec::new();
        let mut idx = Vec::new();
        let mut paths = Vec::new();
        for i in 0..n {
            let pa = *rng.pick(&[Path::IntoBuffer, Path::Wrapper, Path::VecWrapper, Path::PartialInto]);
            let pb = *rng.pick(&[Path::Wrapper, Path::IntoBuffer, Path::VecIntoBuffer, Path::PartialWrapper]);
            ops.push(Op::Process { path: pa, valid: None, slack_in: 0, slack_out: 0, slices: false, ragged: 0, alias: false });
            idx.push(i);
            paths.push(pb);
        }
        sc.profile = "huge-frame-counts+paths".into();
        sc.ops = ops;
        sc.twin = Twin::Paths { idx, paths };
        return sc;
    }
    let n = ops_budget(&sc.config, tier_budget(tier) * 0.5, 5, q(tier, 40, 80), &mut rng);
    let mut m = OpMix::swarm(&mut rng, n);
    m.p_alt_path = rng.uniform(0.3, 1.0);
    m.w_partial = rng.uniform(0.1, 0.5);
    let flush = rng.chance(0.35);
    if flush {
        m.w_ratio = 0.0;
        m.w_reset = 0.0;
        m.w_chunk = 0.0;
    }
    let (p, mut ops, t) = if flush { ("uniform".to_string(), gen_ops_uniform(&mut rng, &sc.config, &m), 0.0) } else { gen_history(&mut rng, &sc.config, &m) };
    if !flush && rng.chance(0.25) && !ops.is_empty() {
        // fault: another resampler's call on this thread unwinds out of a user buffer accessor
        for _ in 0..rng.usize_in(1, 2) {
            let at = rng.usize_in(0, ops.len() - 1);
            ops.insert(at, Op::Bad { call: BadCall::ForeignUnwind { seed: rng.next() as u32 }, path: Path::PartialInto });
        }
    }
    if !flush && rng.chance(0.3) && !ops.is_empty() {
        // rejected calls are forwarded unchanged too: the twin makes the same malformed call through the other
        // trait (Resampler <-> VecResampler object)
        for _ in 0..rng.usize_in(1, 3) {
            let at = rng.usize_in(0, ops.len() - 1);
            let b = gen_bad_op(&mut rng, &sc.config);
            if !matches!(b, Op::Bad { call: BadCall::ForeignUnwind { .. }, .. }) {
                ops.insert(at, b);
            }
        }
    }
    let mut idx = Vec::new();
    let mut paths = Vec::new();
    for (i, op) in ops.iter().enumerate() {
        if let Op::Bad { path, call } = op {
            if matches!(call, BadCall::ForeignUnwind { .. }) {
                continue;
            }
            let alt = match path {
                Path::IntoBuffer => Path::VecIntoBuffer,
                Path::VecIntoBuffer => Path::IntoBuffer,
                Path::Wrapper => Path::VecWrapper,
                Path::VecWrapper => Path::Wrapper,
                Path::PartialInto => Path::VecPartialInto,
                Path::VecPartialInto => Path::PartialInto,
                Path::PartialWrapper => Path::VecPartialWrapper,
                Path::VecPartialWrapper => Path::PartialWrapper,
            };
            idx.push(i);
            paths.push(alt);
        }
        if let Op::Process { path, .. } = op {
            // twin takes another entry path for the same data
            let mut alt = *rng.pick(&ALL_PATHS);
            if alt == *path {
                alt = ALL_PATHS[(ALL_PATHS.iter().position(|x| x == path).unwrap() + 1 + rng.below(7) as usize) % 8];
            }
            idx.push(i);
            paths.push(alt);
        }
    }
    sc.profile = if flush { "paths+flush-liveness".into() } else { format!("{}+paths", p) };
    sc.sim_seconds = t;
    sc.ops = ops;
    sc.twin = Twin::Paths { idx, paths };
    sc
}

fn eval_c16(sc: &Scenario) -> Outcome {
    let mut out = Outcome::default();
    // the provided trait methods and the VecResampler wrapper on a user-written implementor
    crate::usertype::check_user_type_wrappers(&mut out, sc.seed);
    if !out.viol.is_empty() {
        return out;
    }
    let cfg = &sc.config;
    let (idx, paths) = match &sc.twin {
        Twin::Paths { idx, paths } => (idx.clone(), paths.clone()),
        _ => (vec![], vec![]),
    };
    let mut ops_b = sc.ops.clone();
    for (i, p) in idx.iter().zip(paths.iter()) {
        if let Some(Op::Process { path, .. }) = ops_b.get_mut(*i) {
            *path = *p;
        }
        if let Some(Op::Bad { path, .. }) = ops_b.get_mut(*i) {
            *path = *p;
        }
    }
    let a = run_cfg(cfg, &sc.signal, &sc.ops, RunOpts { keep_output: false, ..Default::default() });
    absorb(&mut out, "C16", cfg, &sc.ops, &a, &["C16"]);
    if died(&mut out, "C16", &a, "instance under test") {
        return out;
    }
    let b = run_cfg(cfg, &sc.signal, &ops_b, RunOpts { keep_output: false, vec_setters: true, ..Default::default() });
    absorb(&mut out, "C16", cfg, &ops_b, &b, &["C16"]);
    if died(&mut out, "C16", &b, "twin (other entry paths)") {
        return out;
    }
    for (s, t) in a.steps.iter().zip(b.steps.iter()) {
        let what = match (&sc.ops[s.op], &ops_b[t.op]) {
            (Op::Process { path: pa, valid, .. }, Op::Process { path: pb, .. }) => format!("{:?} vs {:?} (valid frames {:?})", pa, pb, valid),
            _ => "same op".to_string(),
        };
        if let (Op::Process { path: pa, .. }, Op::Process { path: pb, .. }) = (&sc.ops[s.op], &ops_b[t.op]) {
            out.cov.probe(&format!("path_{:?}", pa), 1);
            out.cov.probe(&format!("path_{:?}", pb), 1);
        }
        if !cmp_step(&mut out, "C16", "paths-disagree", s, t, &what) {
            return out;
        }
    }
    // bounded liveness of the flush protocol (constant ratio scenarios only)
    if sc.profile.contains("flush-liveness") && !a.ratio_changed {
        flush_liveness(&mut out, sc);
    }
    out
}

/// After the last real input, a bounded number of `None` calls delivers every frame the input accounts for.
fn flush_liveness(out: &mut Outcome, sc: &Scenario) {
    fn run<T: crate::sut::Flt>(out: &mut Outcome, sc: &Scenario) {
        let cfg = &sc.config;
        let mut r = match Runner::<T>::new(cfg, &sc.signal, RunOpts { keep_output: false, ..Default::default() }) {
            Ok(r) => r,
            Err(_) => return,
        };
        // real input: only full chunks and one partial, no resets
        let mut real: u64 = 0;
        for (i, op) in sc.ops.iter().enumerate() {
            if let Op::Process { valid, .. } = op {
                if *valid == Some(0) {
                    continue;
                }
                // counts must be observable (the allocating wrappers cannot report them when every channel is masked)
                let op = &match op {
                    Op::Process { path, valid, slack_in, slack_out, slices, ragged, .. } => Op::Process { path: if path.is_partial() { Path::PartialInto } else { Path::IntoBuffer }, valid: *valid, slack_in: *slack_in, slack_out: *slack_out, slices: *slices, ragged: *ragged, alias: false },
                    o => o.clone(),
                };
                r.step(i, op);
                if r.dead() {
                    return;
                }
            }
        }
        real += r.trace.total_in;
        let ratio = cfg.nominal_ratio();
        let l = cfg.filter_len() as f64;
        let bound = ratio * (l + 1.0 / ratio + 3.0) + 3.0;
        let (g, _) = r.getters();
        let d_out = g.delay as f64;
        let blk = if cfg.kind.is_fft() { crate::oracle::fft_blocks(cfg).0 as f64 } else { 0.0 };
        // zeros needed so that C07's bound implies delivery of floor(r * real) + delay frames
        let zreq = ((bound + d_out + 1.0) / ratio).ceil() + blk + g.in_max as f64;
        // every None call consumes input_frames_next() >= 1 zero frames, except that FftFixedOut may need no
        // input for a call (it then delivers from its saved frames): at most 2 * zreq + 10 calls
        let want = (ratio * real as f64).floor() + d_out;
        // fixed-input types consume >= 1 zero frame per call, fixed-output types deliver >= 1 frame per call
        let max_calls = zreq as usize + (want - r.trace.total_out as f64).max(0.0) as usize + 10;
        let mut calls = 0usize;
        let consumed0 = r.trace.consumed;
        let zeros_op = Op::Process { path: Path::PartialInto, valid: Some(0), slack_in: 0, slack_out: 0, slices: false, ragged: 0, alias: false };
        while (((r.trace.consumed - consumed0) as f64) < zreq && (r.trace.total_out as f64) < want) && calls < max_calls {
            r.step(sc.ops.len() + calls, &zeros_op);
            calls += 1;
            if r.dead() {
                out.push("C16", "call-did-not-complete", sc.ops.len(), format!("flush call {} died: {:?}", calls, r.trace.died));
                return;
            }
        }
        out.cov.probe("flush_liveness_checked", 1);
        out.cov.probe("flush_none_calls", calls as u64);
        if (r.trace.total_out as f64) < want {
            out.push(
                "C16",
                "flush-bounded-liveness",
                sc.ops.len(),
                format!("{} real frames at ratio {}: after {} None calls ({} zero frames) only {} frames delivered, need floor(r*n)+delay = {}", real, ratio, calls, r.trace.consumed - consumed0, r.trace.total_out, want),
            );
        }
    }
    if sc.config.f32 {
        run::<f32>(out, sc)
    } else {
        run::<f64>(out, sc)
    }
}

// =======================================================================================
// C11 channel independence and masks
// =======================================================================================

fn gen_c11(seed: u64, tier: Tier) -> Scenario {
    let (mut rng, mut sc) = base("C11", seed);
    let dom = Dom { edges: false, masks: false, wild: true, ..Dom::default() };
    sc.config = gen_config(&mut rng, &dom);
    if sc.config.channels <= 8 {
        sc.config.channels = rng.usize_in(1, 8);
    }
    if rng.chance(0.75) {
        let mut m: Vec<bool> = (0..sc.config.channels).map(|_| rng.chance(0.6)).collect();
        if rng.chance(0.1) {
            m.iter_mut().for_each(|x| *x = false);
        }
        if rng.chance(0.1) {
            m.iter_mut().for_each(|x| *x = true);
        }
        sc.config.mask = Some(m);
        sc.config.empty_inactive = rng.chance(0.5);
    }
    sc.signal = match rng.below(3) {
        0 => Signal::Noise { seed: rng.next() },
        1 => Signal::Impulses { seed: rng.next(), period: rng.usize_in(3, 100) as u32, floor: 0.01 },
        _ => Signal::Multisine { seed: rng.next() },
    };
    if sc.config.channels >= 2 && rng.chance(0.1) {
        // one channel carries +-MAX, infinities and NaNs: the others must not notice
        sc.signal = Signal::Extreme { seed: rng.next(), last_ch: sc.config.channels - 1 };
    }
    let per = tier_budget(tier) / (1.0 + sc.config.channels as f64 * 0.5);
    let n = ops_budget(&sc.config, per, 5, q(tier, 40, 80), &mut rng);
    let mut m = OpMix::swarm(&mut rng, n);
    // (aliased channels would give a channel its neighbour's data, which the mono twin cannot see)
    m.p_alias = 0.0;
    let (p, ops, t) = gen_history(&mut rng, &sc.config, &m);
    sc.profile = format!("{}+mono-twins", p);
    sc.sim_seconds = t;
    sc.ops = ops;
    sc.twin = Twin::Mono;
    sc
}

fn eval_c11(sc: &Scenario) -> Outcome {
    let mut out = Outcome::default();
    let cfg = &sc.config;
    let a = run_cfg(cfg, &sc.signal, &sc.ops, RunOpts::default());
    absorb(&mut out, "C11", cfg, &sc.ops, &a, &["C11"]);
    if died(&mut out, "C11", &a, "n-channel instance") {
        return out;
    }
    let mut mono = cfg.clone();
    mono.channels = 1;
    mono.mask = None;
    mono.empty_inactive = false;
    let tol = if cfg.f32 { 1e-6 } else { 1e-12 };
    let mut first_twin: Option<Trace> = None;
    for c in 0..cfg.channels {
        // twins for active channels; for fully masked instances one twin still checks the returned counts
        if !cfg.active(c) && !(first_twin.is_none() && c + 1 == cfg.channels) {
            continue;
        }
        let b = run_cfg(&mono, &sc.signal, &sc.ops, RunOpts { sig_ch0: c, ..Default::default() });
        absorb(&mut out, "C11", &mono, &sc.ops, &b, &[]);
        if died(&mut out, "C11", &b, "mono twin") {
            return out;
        }
        // counts per step equal (with a mask and without)
        for (s, t) in a.steps.iter().zip(b.steps.iter()) {
            let same = match (&s.res, &t.res) {
                (StepRes::Proc { n_in: ai, n_out: ao }, StepRes::Proc { n_in: bi, n_out: bo }) => {
                    // through the allocating wrappers a fully masked instance cannot report a count
                    let all_masked = (0..cfg.channels).all(|k| !cfg.active(k));
                    let wrapper = matches!(&sc.ops[s.op], Op::Process { path, .. } if path.is_wrapper());
                    (ai == bi && ao == bo) || (all_masked && wrapper && ai == bi)
                }
                (x, y) => std::mem::discriminant(x) == std::mem::discriminant(y),
            };
            if !same {
                out.push("C11", "counts-differ-from-mono", s.op, format!("n-channel instance (mask {:?}) returned {:?}, mono twin of channel {} returned {:?}", cfg.mask, s.res, c, t.res));
                return out;
            }
            let all_masked = (0..cfg.channels).all(|k| !cfg.active(k));
            let wrapper = matches!(&sc.ops[s.op], Op::Process { path, .. } if path.is_wrapper());
            if !(all_masked && wrapper) && (s.post.in_next != t.post.in_next || s.post.out_next != t.post.out_next) {
                out.push("C11", "counts-differ-from-mono", s.op, format!("getters after step: n-channel {:?}, mono twin {:?}", s.post, t.post));
                return out;
            }
        }
        if cfg.active(c) {
            let ya = &a.out[c];
            let yb = &b.out[0];
            if ya.len() != yb.len() {
                out.push("C11", "stream-length-differs-from-mono", 0, format!("channel {}: {} frames vs mono twin {}", c, ya.len(), yb.len()));
                return out;
            }
            let peak = yb.iter().fold(1.0f64, |m, v| m.max(v.abs()));
            for (k, (u, v)) in ya.iter().zip(yb.iter()).enumerate() {
                if (u - v).abs() > tol * peak || u.is_nan() != v.is_nan() {
                    let step = a.steps.iter().rev().find(|s| s.out_before <= k as u64).map(|s| s.op).unwrap_or(0);
                    out.push("C11", "channel-differs-from-mono", step, format!("channel {} of {} frame {}: {} vs mono twin {} (tol {:e}, mask {:?})", c, cfg.channels, k, u, v, tol * peak, cfg.mask));
                    return out;
                }
            }
            out.cov.probe("channels_compared_to_mono", 1);
        }
        if first_twin.is_none() {
            first_twin = Some(b);
        }
    }
    out
}

// =======================================================================================
// C17 f32 / f64 agreement
// =======================================================================================

fn gen_c17(seed: u64, tier: Tier) -> Scenario {
    let (mut rng, mut sc) = base("C17", seed);
    let dom = Dom { edges: false, f32: Some(false), wild: true, ..Dom::default() };
    sc.config = gen_config(&mut rng, &dom);
    sc.signal = match rng.below(3) {
        0 => Signal::Noise { seed: rng.next() },
        1 => Signal::Impulses { seed: rng.next(), period: rng.usize_in(3, 100) as u32, floor: 0.01 },
        _ => Signal::Multisine { seed: rng.next() },
    };
    if rng.chance(0.12) {
        // "all signals of bounded amplitude": the agreement is relative to the signal peak, wherever that lies in the
        // range both sample types represent comfortably (1e-25 .. 1e25)
        let e = rng.uniform(3.0, 25.0) * if rng.chance(0.5) { 1.0 } else { -1.0 };
        sc.signal = Signal::Tiny { seed: rng.next(), scale: 10f64.powf(e) };
    }
    if sc.config.kind.is_sinc() && sc.config.kernel == Kernel::Auto && rng.chance(0.15) {
        // the run-time dispatch picks another kernel (same simulated CPU for both twins)
        sc.config.cpu_mask = *rng.pick(&[2u8, 4, 6, 7]);
    }
    let n = ops_budget(&sc.config, tier_budget(tier) * 0.5, 5, q(tier, 50, 120), &mut rng);
    let m = OpMix::swarm(&mut rng, n);
    let (p, mut ops, t) = gen_history(&mut rng, &sc.config, &m);
    if sc.config.kind.is_async() && rng.chance(0.3) {
        // control decisions at and next to the exact bounds (f64 neighbours that coincide with the bound in f32)
        for _ in 0..rng.usize_in(1, 4) {
            let k = *rng.pick(&[0i8, 1, -1, 2, -2, 3]);
            let val = if rng.chance(0.5) { CtlVal::UpperUlp(k) } else { CtlVal::LowerUlp(k) };
            let at = rng.usize_in(0, ops.len());
            ops.insert(at, Op::BadRatio { val, ramp: rng.chance(0.5), relative_api: rng.chance(0.5) });
        }
    }
    sc.profile = format!("{}+f32-twin", p);
    sc.sim_seconds = t;
    sc.ops = ops;
    sc.twin = Twin::OtherType;
    sc
}

fn eval_c17(sc: &Scenario) -> Outcome {
    let mut out = Outcome::default();
    let mut c64 = sc.config.clone();
    c64.f32 = false;
    let mut c32 = sc.config.clone();
    c32.f32 = true;
    let a = run_cfg(&c64, &sc.signal, &sc.ops, RunOpts { round_f32: true, ..Default::default() });
    absorb(&mut out, "C17", &c64, &sc.ops, &a, &[]);
    if died(&mut out, "C17", &a, "f64 instance") {
        return out;
    }
    let b = run_cfg(&c32, &sc.signal, &sc.ops, RunOpts { round_f32: true, ..Default::default() });
    absorb(&mut out, "C17", &c32, &sc.ops, &b, &[]);
    if died(&mut out, "C17", &b, "f32 instance") {
        return out;
    }
    if a.init != b.init {
        out.push("C17", "control-sequence-differs", 0, format!("getters after construction: f64 {:?} f32 {:?}", a.init, b.init));
        return out;
    }
    for (s, t) in a.steps.iter().zip(b.steps.iter()) {
        let same = match (&s.res, &t.res) {
            (StepRes::Proc { n_in: ai, n_out: ao }, StepRes::Proc { n_in: bi, n_out: bo }) => ai == bi && ao == bo,
            (x, y) => x == y,
        };
        if !same || s.pre != t.pre || s.post != t.post {
            out.push("C17", "control-sequence-differs", s.op, format!("f64: {:?} {:?}->{:?}; f32: {:?} {:?}->{:?}", s.res, s.pre, s.post, t.res, t.pre, t.post));
            return out;
        }
    }
    let cfg = &sc.config;
    let eps = f32::EPSILON as f64;
    let mut worst = 0.0f64;
    for c in 0..cfg.channels {
        if !cfg.active(c) {
            continue;
        }
        let ya = &a.out[c];
        let yb = &b.out[c];
        // floor of the peak: the nominal amplitude of the input signal
        let floor = match &sc.signal {
            Signal::Tiny { scale, .. } => *scale,
            _ => 1.0,
        };
        let peak = ya.iter().fold(floor, |m, v| m.max(v.abs()));
        // The f32 sinc table is normalised by a sequentially accumulated f32 sum of len * oversampling terms: the f32
        // instantiation has a uniform gain error of up to n * eps / 2 (worst case; about sqrt(n) * eps typically). That
        // gain is estimated from the two streams and judged on its own; what is left must agree to the rounding of a
        // len-term dot product. Polynomial and FFT resamplers have no such table: gain 1.
        let table: Option<(f64, f64)> = if cfg.kind.is_sinc() && cfg.kernel != Kernel::Custom {
            // (table points, residual bound in eps): a len-term f32 dot product
            let l = cfg.sinc_len_rounded() as f64;
            Some((l * cfg.oversampling as f64, 4.0 * l + 64.0))
        } else if cfg.kind.is_fft() {
            // the FFT resamplers normalise their block-long filter the same way; f32 FFT rounding grows with log2(N)
            let nblk = crate::oracle::fft_blocks(cfg).0.max(2) as f64;
            Some((nblk, 64.0 * (2.0 * nblk).log2() + 256.0))
        } else {
            None
        };
        let (gain, gain_tol, bmul) = match table {
            Some((n, resid)) => {
                let (mut num, mut den) = (0.0f64, 0.0f64);
                for (u, v) in ya.iter().zip(yb.iter()) {
                    if u.is_finite() && v.is_finite() {
                        num += u * v;
                        den += u * u;
                    }
                }
                let g = if den > 1e-6 * peak * peak { num / den } else { 1.0 };
                // worst-case sequential f32 sum of n terms + systematic part of the dot products; with a relative cutoff
                // above 1 (accepted, but the sinc then partly cancels in the normalisation sum) the sum is ill-conditioned
                let l = cfg.sinc_len_rounded() as f64;
                let mut gt = (0.5 * n + 8.0 * l + 128.0) * eps;
                let fc_eff = if cfg.kind.is_sinc() { cfg.f_cutoff as f64 * cfg.ratio.min(1.0) } else { 0.0 };
                if fc_eff > 1.0 || cfg.f_cutoff > 1.0 {
                    gt = gt.max(1e-3);
                }
                (g, gt, resid)
            }
            None => (1.0, 0.0, 256.0),
        };
        // judged like the samples: relative to the (floored) peak
        let peak_actual = ya.iter().fold(0.0f64, |m, v| if v.is_finite() { m.max(v.abs()) } else { m });
        if (gain - 1.0).abs() * peak_actual > gain_tol * peak {
            out.push("C17", "f32-gain-off-f64", 0, format!("channel {}: the f32 stream is {} times the f64 stream, more than the table normalisation can explain ({:e})", c, gain, gain_tol));
            return out;
        }
        let tol = bmul * eps * peak;
        for (k, (u, v)) in ya.iter().zip(yb.iter()).enumerate() {
            let d = (gain * u - v).abs();
            if d > worst * tol {
                worst = d / tol;
            }
            if !(d <= tol) && !(u.is_nan() && v.is_nan()) {
                let step = a.steps.iter().rev().find(|s| s.out_before <= k as u64).map(|s| s.op).unwrap_or(0);
                out.push("C17", "f32-output-off-f64", step, format!("channel {} frame {}: f64 {} (x table gain {}) f32 {} |diff| {:e} > {} eps_f32 * peak {:e}", c, k, u, gain, v, d, bmul, peak));
                return out;
            }
        }
    }
    out.cov.probe("worst_over_half_tolerance", (worst > 0.5) as u64);
    out
}

// =======================================================================================
// C05 chunking / variant independence
// =======================================================================================

fn dyadic_ratio(rng: &mut Rng) -> f64 {
    loop {
        let j = rng.usize_in(0, 6) as i32;
        let k = rng.usize_in(1, 1 << (j + 4)) as f64;
        let t = k / (1u64 << j) as f64;
        if !(1.0 / 16.0..=16.0).contains(&t) {
            continue;
        }
        let r = 1.0 / t;
        if 1.0 / r == t {
            return r;
        }
    }
}

fn lcm(a: usize, b: usize) -> usize {
    fn g(a: usize, b: usize) -> usize {
        if b == 0 {
            a
        } else {
            g(b, a % b)
        }
    }
    a / g(a, b) * b
}

fn gen_c05(seed: u64, tier: Tier) -> Scenario {
    let (mut rng, mut sc) = base("C05", seed);
    let dom = Dom { edges: false, masks: false, max_channels: 2, wild: true, ..Dom::default() };
    let mut a = gen_config(&mut rng, &dom);
    let nearest = (a.kind.is_sinc() && a.interp % 4 == 0) || (a.kind.is_fast() && a.degree % 5 == 0);
    if nearest {
        // exact-grid ratios; the "deep position" wild case keeps its very low ratio as 1/k with an integer step k
        let k = (1.0 / a.ratio).round();
        if a.ratio < 1.0 / 32.0 && 1.0 / (1.0 / k) == k {
            a.ratio = 1.0 / k;
        } else {
            a.ratio = dyadic_ratio(&mut rng);
        }
    }
    let mut b = a.clone();
    let mode = rng.below(4);
    let mut steps: Vec<(u64, f64)> = Vec::new();
    let mut sa: Vec<usize> = Vec::new();
    let mut sb: Vec<usize> = Vec::new();
    let mut profile = "chunk-pair";
    if a.kind.is_fft() {
        // pairs that resolve to the same FFT block; variants In/Out/InOut
        let (blk_in, blk_out) = crate::oracle::fft_blocks(&a);
        let variants = [Kind::FftIn, Kind::FftOut, Kind::FftInOut];
        b.kind = *rng.pick(&variants);
        let mult = rng.usize_in(1, 4);
        match b.kind {
            Kind::FftIn => {
                b.sub_chunks = mult;
                b.chunk = blk_in as usize * mult;
            }
            Kind::FftOut => {
                b.sub_chunks = mult;
                b.chunk = blk_out as usize * mult;
            }
            _ => {
                b.chunk = blk_in as usize;
                b.sub_chunks = 1;
            }
        }
        // guard: both must resolve to the same block
        if crate::oracle::fft_blocks(&b) != (blk_in, blk_out) {
            b = a.clone();
        }
        profile = "fft-same-block";
    } else if mode == 0 {
        // variant twin (FixedIn <-> FixedOut), constant ratio
        b.kind = match a.kind {
            Kind::SincIn => Kind::SincOut,
            Kind::SincOut => Kind::SincIn,
            Kind::FastIn => Kind::FastOut,
            _ => Kind::FastIn,
        };
        b.chunk = gen_chunk(&mut rng, 4096);
        profile = "variant";
    } else {
        b.chunk = gen_chunk(&mut rng, 4096);
        if a.kind.is_sinc() && rng.chance(0.5) {
            // mid-stream set_chunk_size schedules
            let na = rng.usize_in(1, 12);
            for _ in 0..na {
                sa.push(gen_chunk(&mut rng, a.chunk));
            }
            if rng.chance(0.5) {
                for _ in 0..rng.usize_in(1, 12) {
                    sb.push(gen_chunk(&mut rng, b.chunk));
                }
            }
            profile = "set-chunk-schedule";
        }
        // stepped ratio changes at positions that are call boundaries in both partitions
        if a.max_rel > 1.0 && sa.is_empty() && sb.is_empty() && rng.chance(0.5) {
            let l = lcm(a.chunk, b.chunk);
            if l <= 20_000 {
                let n = rng.usize_in(1, 4);
                let mut pos = 0u64;
                for _ in 0..n {
                    pos += (l * rng.usize_in(1, 3)) as u64;
                    let rel = if nearest {
                        // keep 1/ratio dyadic: multiply by a power of two inside the range
                        let p = if rng.chance(0.5) { 2.0 } else { 0.5 };
                        if p <= a.max_rel && p >= 1.0 / a.max_rel {
                            p
                        } else {
                            1.0
                        }
                    } else {
                        gen_rel(&mut rng, &a, false)
                    };
                    steps.push((pos, rel));
                }
                profile = "aligned-ratio-steps";
                // With an exactly rational ratio the read position lands exactly on the integer end-of-chunk
                // threshold, and which side of it rounding puts the position (hence which frame is the first at
                // the new ratio) legitimately depends on the partition. Generic ratios have no such ties.
                if !nearest {
                    a.ratio *= 1.0 + rng.uniform(1e-4, 1e-3);
                    b.ratio = a.ratio;
                }
            }
        }
    }
    // stream length under a work budget
    let cost_a = call_cost(&a, a.max_rel) / a.chunk.max(1) as f64;
    let cost_b = call_cost(&b, b.max_rel) / b.chunk.max(1) as f64;
    let per_frame = match a.kind {
        Kind::SincIn | Kind::FastIn | Kind::FftIn | Kind::FftInOut => cost_a + cost_b,
        _ => (cost_a + cost_b) * a.nominal_ratio().max(0.1),
    };
    let afford = (tier_budget(tier) * 1.5 / per_frame.max(1.0)) as u64;
    let min_frames = steps.last().map(|s| s.0 + 200).unwrap_or(0);
    let want = rng.log_usize(200, q(tier, 20_000, 60_000)) as u64;
    let mut frames = want.min(afford.max(300)).max(min_frames);
    // both partitions should at least get through the longer one's first call (a fixed-output type at a very low
    // ratio consumes a million frames in one call: what happens late in that call is otherwise never compared)
    let call_in = |c: &Config| -> u64 {
        match c.kind {
            Kind::SincOut | Kind::FastOut => (c.chunk as f64 / c.nominal_ratio().max(1e-9)).ceil() as u64 + 64,
            _ => c.chunk as u64,
        }
    };
    let longest = call_in(&a).max(call_in(&b));
    if !a.kind.is_fft() && frames < longest && (longest as f64) * per_frame <= tier_budget(tier) * 8.0 {
        frames = longest + 1;
    }
    sc.config = a;
    sc.signal = if rng.chance(0.7) { Signal::Noise { seed: rng.next() } } else { Signal::Impulses { seed: rng.next(), period: rng.usize_in(5, 300) as u32, floor: 0.1 } };
    sc.profile = profile.to_string();
    sc.twin = Twin::Chunking { config_b: b, frames, setchunk_a: sa, setchunk_b: sb, steps };
    sc
}

/// Drive one partition of the stream: returns the trace.
fn run_partition<T: crate::sut::Flt>(cfg: &Config, signal: &Signal, frames: u64, setchunk: &[usize], steps: &[(u64, f64)], by_output: bool) -> Trace {
    let mut r = match Runner::<T>::new(cfg, signal, RunOpts::default()) {
        Ok(r) => r,
        Err(e) => {
            let mut t = Trace::default();
            t.construct_err = Some(e);
            return t;
        }
    };
    let mut k = 0usize;
    let mut next_step = 0usize;
    let mut calls = 0usize;
    while r.trace.cursor < frames && calls < 200_000 {
        let counter = if by_output { r.trace.total_out } else { r.trace.consumed };
        while next_step < steps.len() && counter >= steps[next_step].0 {
            if counter == steps[next_step].0 {
                r.step(1_000_000 + next_step, &Op::SetRatio { rel: steps[next_step].1, ramp: false, relative_api: false });
            }
            next_step += 1;
        }
        if !setchunk.is_empty() {
            r.step(2_000_000 + k, &Op::SetChunk { n: setchunk[k % setchunk.len()] });
            k += 1;
        }
        r.step(calls, &Op::process());
        calls += 1;
        if r.dead() {
            break;
        }
    }
    r.finish()
}

fn eval_c05(sc: &Scenario) -> Outcome {
    let mut out = Outcome::default();
    let (cfg_b, frames, sa, sb, steps) = match &sc.twin {
        Twin::Chunking { config_b, frames, setchunk_a, setchunk_b, steps } => (config_b.clone(), *frames, setchunk_a.clone(), setchunk_b.clone(), steps.clone()),
        _ => return out,
    };
    let cfg_a = &sc.config;
    let by_output = matches!(cfg_a.kind, Kind::SincOut | Kind::FastOut);
    let go = |cfg: &Config, sch: &[usize]| -> Trace {
        if cfg.f32 {
            run_partition::<f32>(cfg, &sc.signal, frames, sch, &steps, by_output)
        } else {
            run_partition::<f64>(cfg, &sc.signal, frames, sch, &steps, by_output)
        }
    };
    let a = go(cfg_a, &sa);
    let fake_ops = vec![Op::process()];
    absorb(&mut out, "C05", cfg_a, &fake_ops, &a, &[]);
    if died(&mut out, "C05", &a, "partition A") {
        return out;
    }
    let b = go(&cfg_b, &sb);
    absorb(&mut out, "C05", &cfg_b, &fake_ops, &b, &[]);
    if died(&mut out, "C05", &b, "partition B") {
        return out;
    }
    out.cov.fault("F1_partition_twin", 1);
    out.cov.fault("F1_chunk_change", (a.steps.iter().filter(|s| s.code == 5).count() + b.steps.iter().filter(|s| s.code == 5).count()) as u64);
    out.cov.fault("F6_ratio_step", a.steps.iter().filter(|s| s.code == 3).count() as u64);
    out.cov.calls = (a.steps.iter().filter(|s| s.code == 0).count() + b.steps.iter().filter(|s| s.code == 0).count()) as u64;
    if cfg_b.kind != cfg_a.kind {
        out.cov.probe("variant_twin", 1);
    }
    let nearest = (cfg_a.kind.is_sinc() && cfg_a.interp % 4 == 0) || (cfg_a.kind.is_fast() && cfg_a.degree % 5 == 0);
    // Tolerance = rounding of the arithmetic on the samples (base) + the worst-case drift of the carried read position:
    // every output frame adds the step to a position of magnitude up to `pos_mag` (chunk-relative), so after k frames
    // the two partitions' positions can differ by k * ulp(pos_mag); times a slope bound for the interpolated signal.
    let base = if nearest { 0.0 } else if cfg_a.f32 { 3e-5 } else { 2e-8 };
    let pos_mag = a.steps.iter().chain(b.steps.iter()).map(|s| s.pre.in_next).max().unwrap_or(1) as f64 + 2.0 * cfg_a.filter_len() as f64 + 16.0;
    let drift_per_frame = if nearest || cfg_a.kind.is_fft() { 0.0 } else { pos_mag * f64::EPSILON * 16.0 };
    for c in 0..cfg_a.channels {
        let ya = &a.out[c];
        let yb = &b.out[c];
        let n = ya.len().min(yb.len());
        let peak = ya[..n].iter().fold(1.0f64, |m, v| m.max(v.abs()));
        let mut worst = 0.0f64;
        for k in 0..n {
            let d = (ya[k] - yb[k]).abs();
            if d > worst {
                worst = d;
            }
            let tol = base + (k as f64 + 1.0) * drift_per_frame;
            if !(d <= tol * peak) {
                let sa_ = a.steps.iter().rev().find(|s| s.out_before <= k as u64 && s.code == 0).map(|s| s.op).unwrap_or(0);
                out.push(
                    "C05",
                    "streams-differ",
                    sa_,
                    format!("channel {} output frame {} (of common prefix {}): A[{} chunk {}] = {} vs B[{} chunk {} sub {}] = {}, |diff| {:e} > {:e}", c, k, n, cfg_a.kind.name(), cfg_a.chunk, ya[k], cfg_b.kind.name(), cfg_b.chunk, cfg_b.sub_chunks, yb[k], d, tol * peak),
                );
                return out;
            }
        }
        out.cov.probe("frames_compared", n as u64);
        let rel = worst / peak;
        let scale = if cfg_a.f32 { 1e2 } else { 1.0 };
        out.cov.probe("twin_diff_above_1e-10", (rel > 1e-10 * scale) as u64);
        out.cov.probe("twin_diff_above_1e-9", (rel > 1e-9 * scale) as u64);
        out.cov.probe("twin_diff_above_1e-8", (rel > 1e-8 * scale) as u64);
        out.cov.probe("twin_diff_above_1e-7", (rel > 1e-7 * scale) as u64);
    }
    out
}

// =======================================================================================
// C06 continuous forward-only time warp
// =======================================================================================

fn gen_c06(seed: u64, tier: Tier) -> Scenario {
    let (mut rng, mut sc) = base("C06", seed);
    let is_f32 = rng.chance(0.12);
    let dom = Dom {
        kinds: vec![Kind::SincIn, Kind::SincOut, Kind::FastIn, Kind::FastOut],
        edges: false,
        masks: false,
        max_channels: 2,
        kernel: Kernel::Probe,
        f32: Some(is_f32),
        // f32 position mode only resolves short streams: no wild sizes there
        wild: !is_f32,
        ..Dom::default()
    };
    sc.config = gen_config(&mut rng, &dom);
    if sc.config.max_rel == 1.0 && rng.chance(0.8) {
        sc.config.max_rel = rng.log_uniform(1.0, 16.0);
    }
    sc.signal = Signal::Index;
    // keep the stream short enough for exact integer arithmetic in f32 position mode
    let cap = if sc.config.f32 { 12 } else { q(tier, 60, 160) };
    let mut n = ops_budget(&sc.config, tier_budget(tier), 4, cap, &mut rng);
    if sc.config.f32 {
        let per_call_in = match sc.config.kind {
            Kind::SincIn | Kind::FastIn => sc.config.chunk as f64,
            _ => sc.config.chunk as f64 / sc.config.ratio * sc.config.max_rel,
        };
        n = n.min(((30_000.0 / per_call_in.max(1.0)) as usize).max(3));
    }
    let mut m = OpMix::swarm(&mut rng, n);
    m.w_partial = 0.0;
    m.p_alt_path = 0.0;
    m.w_ratio = rng.uniform(0.2, 0.8);
    m.w_reset *= 0.3;
    let (p, ops, t) = match rng.weighted(&[0.4, 0.35, 0.25]) {
        0 => ("uniform".to_string(), gen_ops_uniform(&mut rng, &sc.config, &m), 0.0),
        1 => ("adversarial".to_string(), gen_ops_adversarial(&mut rng, &sc.config, &m), 0.0),
        _ => {
            let (o, t) = gen_ops_ratematch(&mut rng, &sc.config, &m);
            ("ratematch".to_string(), o, t)
        }
    };
    // only full processing calls in position mode
    let mut ops: Vec<Op> = ops
        .into_iter()
        .map(|o| match o {
            Op::Process { slack_in, slack_out, slices, .. } => Op::Process { path: Path::IntoBuffer, valid: None, slack_in, slack_out, slices, ragged: 0, alias: false },
            x => x,
        })
        .collect();
    // rejected calls interleaved with the control calls (a rejected call must not consume a pending ramp)
    if sc.config.channels > 0 && rng.chance(0.25) {
        let pb = rng.uniform(0.05, 0.3);
        sprinkle(&mut rng, &sc.config, &mut ops, 0.0, pb);
    }
    sc.profile = p;
    sc.sim_seconds = t;
    sc.ops = ops;
    sc
}

fn eval_c06(sc: &Scenario) -> Outcome {
    let mut out = Outcome::default();
    let cfg = &sc.config;
    let a = run_cfg(cfg, &sc.signal, &sc.ops, RunOpts { rewind_on_reset: true, ..Default::default() });
    absorb(&mut out, "C06", cfg, &sc.ops, &a, &[]);
    if died(&mut out, "C06", &a, "instance under test") {
        return out;
    }
    if let Some(p) = &a.probe {
        if let Some(b) = &p.bad_args {
            out.push("C06", "probe-bad-args", 0, format!("interpolator asked for {}", b));
            return out;
        }
        out.cov.probe("probe_calls", p.calls);
        out.cov.probe("probe_poisoned_windows", p.poisoned);
    }
    let nearest = (cfg.kind.is_sinc() && cfg.interp % 4 == 0) || (cfg.kind.is_fast() && cfg.degree % 5 == 0);
    let grid = if !nearest {
        0.0
    } else if cfg.kind.is_sinc() {
        1.0 / cfg.oversampling as f64
    } else {
        1.0
    };
    // model of the ratio state
    let orig = cfg.ratio;
    let m = cfg.max_rel;
    let mut cur = orig;
    let mut target = orig;
    let y = &a.out[0];
    // other channels must report the same instants
    for c in 1..cfg.channels {
        if a.out[c] != a.out[0] {
            out.push("C06", "channels-disagree-on-instants", 0, format!("channel {} recovered instants differ from channel 0", c));
            return out;
        }
    }
    let half = if cfg.kind.is_sinc() { 2.0 } else { 6.0 };
    let mut prev: Option<f64> = None; // last instant (valid, past the transient)
    let mut maxabs = 1.0f64;
    let mut was_ramped_prev_call = false;
    let _ = was_ramped_prev_call;
    for s in &a.steps {
        match (&sc.ops[s.op], &s.res) {
            (Op::SetRatio { rel, ramp, relative_api }, StepRes::CtlOk) => {
                let v = setratio_effective(cfg, *rel, *relative_api);
                let _ = (orig, m);
                target = v;
                if !*ramp {
                    cur = v;
                }
            }
            (Op::Reset, StepRes::Reset) => {
                cur = orig;
                target = orig;
                prev = None;
            }
            (Op::Process { .. }, StepRes::Proc { n_out, .. }) => {
                let t_old = 1.0 / cur;
                let t_new = 1.0 / target;
                let ramped = t_old != t_new;
                let (lo, hi) = (t_old.min(t_new), t_old.max(t_new));
                let b0 = s.out_before as usize;
                let mut last_sp: Option<f64> = None;
                for j in 0..*n_out {
                    if b0 + j >= y.len() {
                        // the executor keeps at most RunOpts::max_frames output frames of a run
                        out.cov.probe("output_cap_reached", 1);
                        return out;
                    }
                    let v = y[b0 + j];
                    maxabs = maxabs.max(v.abs());
                    // the recovered instants are stream positions up to `maxabs`: their rounding noise is a few ulps of that
                    let tol = if cfg.f32 { 8.0 * (f32::EPSILON as f64) * maxabs.max(64.0) } else { 64.0 * f64::EPSILON * maxabs.max(64.0) + 1e-12 };
                    if !(v >= half) {
                        // start-up transient: window still overlaps the zero pre-roll
                        if prev.is_some() {
                            out.push("C06", "instant-not-increasing", s.op, format!("frame {} of the call (stream frame {}): recovered instant {} after {}", j, b0 + j, v, prev.unwrap()));
                            return out;
                        }
                        continue;
                    }
                    if let Some(p) = prev {
                        let sp = v - p;
                        if nearest {
                            if sp < -tol || sp < lo - grid - tol || sp > hi + grid + tol {
                                out.push("C06", "spacing-out-of-band", s.op, format!("frame {} of the call (stream frame {}): quantised instants {} -> {}, spacing {} not in [{}, {}] +- grid {}", j, b0 + j, p, v, sp, lo, hi, grid));
                                return out;
                            }
                        } else {
                            if !(sp > 0.0) {
                                out.push("C06", "instant-not-increasing", s.op, format!("frame {} of the call (stream frame {}): instant {} after {} (spacing {})", j, b0 + j, v, p, sp));
                                return out;
                            }
                            if sp < lo * (1.0 - 1e-12) - tol || sp > hi * (1.0 + 1e-12) + tol {
                                out.push(
                                    "C06",
                                    "spacing-out-of-band",
                                    s.op,
                                    format!("frame {} of the call (stream frame {}): instants {} -> {}, spacing {} outside [1/r_new, 1/r_old] = [{}, {}] ({}; a point computed over stale storage is offset by 0.01 times its weight)", j, b0 + j, p, v, sp, lo, hi, if ramped { "ramped call" } else { "constant-ratio call" }),
                                );
                                return out;
                            }
                            if ramped && last_sp.is_none() && j <= 1 {
                                // "moves from old towards new during the next chunk": with at least 8 frames expected in the
                                // chunk the first step is at most 1/8 of the way, so the first spacing is on the old side
                                let expected_frames = if cfg.kind.fixed_out() { s.pre.out_next as f64 } else { s.pre.in_next as f64 * 0.5 * (cur + target) };
                                if expected_frames >= 8.0 && *n_out >= 4 && (sp - t_old).abs() > (sp - t_new).abs() + 2.0 * tol {
                                    out.push("C06", "ramp-does-not-start-at-old-ratio", s.op, format!("first spacing of the ramped call is {} while ramping {} -> {} over ~{} frames", sp, t_old, t_new, expected_frames));
                                    return out;
                                }
                            }
                            if ramped {
                                // monotone from old towards new
                                if let Some(l) = last_sp {
                                    let dir = if t_new > t_old { 1.0 } else { -1.0 };
                                    if (sp - l) * dir < -2.0 * tol {
                                        out.push("C06", "ramp-not-monotone", s.op, format!("frame {} of the ramped call: spacing went {} -> {} while ramping {} -> {}", j, l, sp, t_old, t_new));
                                        return out;
                                    }
                                }
                            }
                            last_sp = Some(sp);
                        }
                    }
                    prev = Some(v);
                }
                if ramped {
                    out.cov.probe("ramped_calls_checked", 1);
                } else {
                    out.cov.probe("constant_calls_checked", 1);
                }
                was_ramped_prev_call = ramped;
                cur = target;
            }
            _ => {}
        }
    }
    out
}

// =======================================================================================
// C15 kernels
// =======================================================================================

fn gen_c15(seed: u64, tier: Tier) -> Scenario {
    let (mut rng, mut sc) = base("C15", seed);
    let dom = Dom { kinds: vec![Kind::SincIn, Kind::SincOut], edges: false, max_channels: 2, max_chunk: 512, wild: true, ..Dom::default() };
    sc.config = gen_config(&mut rng, &dom);
    // all multiples of 8 up to 512, odd and even len/8
    if rng.chance(0.7) {
        sc.config.sinc_len = 8 * rng.usize_in(1, 64);
    }
    if sc.config.sinc_len * sc.config.oversampling > 32768 {
        sc.config.oversampling = (32768 / sc.config.sinc_len).max(1);
        if sc.config.oversampling == 1 && sc.config.interp >= 2 {
            sc.config.interp = 1;
        }
    }
    if rng.chance(0.004) {
        // oversampling factors beyond 2^15 (sub-filter indices with bit 15 or more set, tables beyond 2^20 vectors)
        sc.config.oversampling = rng.log_usize(32_769, 300_000);
        sc.config.sinc_len = 8 * rng.usize_in(1, 3);
        sc.config.chunk = sc.config.chunk.min(64);
        sc.config.channels = 1;
        sc.config.mask = None;
    }
    if rng.chance(0.006) {
        // the degenerate multiple of 8: no taps, every kernel returns 0 and reads nothing (SincFixedIn with a 1- or
        // 2-point interpolation runs it; the other combinations are known finding D18)
        sc.config.kind = Kind::SincIn;
        sc.config.sinc_len = 0;
        sc.config.interp %= 2;
    }
    // the cross-check variant costs tens of scalar kernel evaluations per point: keep one call of a wild
    // configuration (many channels x extreme ratio x long filter) affordable, a call is not interruptible
    for _ in 0..24 {
        let c = call_cost(&sc.config, sc.config.max_rel).max(call_cost(&sc.config, 1.0 / sc.config.max_rel));
        if c <= 3.0e8 {
            break;
        }
        if sc.config.channels > 2 {
            sc.config.channels = (sc.config.channels / 2).max(2);
            if let Some(m) = &mut sc.config.mask {
                m.truncate(sc.config.channels);
            }
        } else if sc.config.chunk > 8 {
            sc.config.chunk /= 2;
        } else {
            break;
        }
    }
    sc.signal = match rng.below(5) {
        0 => Signal::Noise { seed: rng.next() },
        1 => Signal::Impulses { seed: rng.next(), period: rng.usize_in(2, 40) as u32, floor: 0.0 },
        2 => Signal::Wide { seed: rng.next() },
        3 => gen_tiny(&mut rng),
        _ => {
            if rng.chance(0.4) {
                Signal::NanSparse { seed: rng.next() }
            } else {
                Signal::Multisine { seed: rng.next() }
            }
        }
    };
    let n = ops_budget(&sc.config, tier_budget(tier) * 0.12, 3, q(tier, 24, 48), &mut rng);
    let mut m = OpMix::swarm(&mut rng, n);
    m.w_partial = 0.0;
    m.p_alt_path = 0.0;
    let (p, ops, t) = gen_history(&mut rng, &sc.config, &m);
    sc.profile = format!("{}+kernels", p);
    sc.sim_seconds = t;
    sc.ops = ops;
    sc.twin = Twin::Kernels {
        variants: vec![(Kernel::Scalar, 0), (Kernel::Auto, 0), (Kernel::Auto, 2), (Kernel::Auto, 4), (Kernel::Auto, 6), (Kernel::Auto, 7), (Kernel::Sse, 0), (Kernel::Avx, 0), (Kernel::Cross, 0)],
    };
    sc
}

fn eval_c15(sc: &Scenario) -> Outcome {
    let mut out = Outcome::default();
    let variants = match &sc.twin {
        Twin::Kernels { variants } => variants.clone(),
        _ => return out,
    };
    let cfg = &sc.config;
    let mut reference: Option<Trace> = None;
    let len = cfg.sinc_len_rounded() as f64;
    let eps = if cfg.f32 { f32::EPSILON as f64 } else { f64::EPSILON };
    for (kernel, mask) in variants {
        let mut c = cfg.clone();
        c.kernel = kernel;
        c.cpu_mask = mask;
        let t = run_cfg(&c, &sc.signal, &sc.ops, RunOpts::default());
        absorb(&mut out, "C15", &c, &sc.ops, &t, &[]);
        if mask != 0 {
            out.cov.fault("F9_cpu_feature_mask", 1);
        }
        out.cov.probe(&format!("variant_{:?}_mask{}", kernel, mask), 1);
        if died(&mut out, "C15", &t, &format!("variant {:?} mask {}", kernel, mask)) {
            return out;
        }
        if let Some(cl) = &t.cross {
            out.cov.probe("kernel_calls_cross_checked", cl.compared);
            out.cov.probe("kernel_calls_bound_skipped", cl.bound_skipped);
            out.cov.probe("kernel_embed_checks", cl.embed_checks);
            out.cov.probe(&format!("cross_kernels_{}", cl.kernels.join("+")), 1);
            out.cov.probe("cross_worst_over_half_bound", (cl.worst > 0.5) as u64);
            if let Some(v) = &cl.violation {
                out.push("C15", "kernels-disagree", 0, v.clone());
                return out;
            }
        }
        match &reference {
            None => reference = Some(t),
            Some(r) => {
                // identical control sequence
                for (s, u) in r.steps.iter().zip(t.steps.iter()) {
                    let same = match (&s.res, &u.res) {
                        (StepRes::Proc { n_in: ai, n_out: ao }, StepRes::Proc { n_in: bi, n_out: bo }) => ai == bi && ao == bo,
                        (x, y) => x == y,
                    };
                    if !same || s.post != u.post {
                        out.push("C15", "dispatch-changes-counts", s.op, format!("scalar: {:?} {:?}; {:?} mask {}: {:?} {:?}", s.res, s.post, kernel, mask, u.res, u.post));
                        return out;
                    }
                }
                for ch in 0..cfg.channels {
                    if !cfg.active(ch) {
                        continue;
                    }
                    let ya = &r.out[ch];
                    let yb = &t.out[ch];
                    // local peak: the dynamic range signal needs a local scale
                    let n = ya.len().min(yb.len());
                    let w = (2.0 * len) as usize + 8;
                    for k in 0..n {
                        let lo = k.saturating_sub(w);
                        let hi = (k + w).min(n);
                        let _ = (lo, hi);
                        let d = (ya[k] - yb[k]).abs();
                        let scale = ya[k].abs().max(yb[k].abs());
                        // summation-order bound propagated through the 4-point blend, relative to the local signal scale;
                        // the per-call bound with the real products is checked by the cross-check kernel
                        let peak = match sc.signal {
                            Signal::Wide { .. } => f64::INFINITY,
                            Signal::Tiny { scale, .. } => 4.0 * scale,
                            _ => 4.0,
                        };
                        let denorm = if cfg.f32 { f32::from_bits(1) as f64 } else { f64::from_bits(1) };
                        let tol = 16.0 * len.max(16.0) * eps * peak.max(scale) + 16.0 * len * denorm;
                        if !(d <= tol) && !(ya[k].is_nan() && yb[k].is_nan()) {
                            let step = r.steps.iter().rev().find(|s| s.out_before <= k as u64).map(|s| s.op).unwrap_or(0);
                            out.push("C15", "stream-depends-on-kernel", step, format!("channel {} frame {}: scalar {} vs {:?} (cpu mask {}) {}, |diff| {:e} > {:e}", ch, k, ya[k], kernel, mask, yb[k], d, tol));
                            return out;
                        }
                    }
                }
            }
        }
    }
    out
}

// =======================================================================================
// dispatch
// =======================================================================================

pub fn generate2(prop: &str, seed: u64, tier: Tier) -> Scenario {
    match prop {
        "C05" => gen_c05(seed, tier),
        "C06" => gen_c06(seed, tier),
        "C10" => gen_c10(seed, tier),
        "C11" => gen_c11(seed, tier),
        "C12" => gen_c12(seed, tier),
        "C13" => gen_c13(seed, tier),
        "C15" => gen_c15(seed, tier),
        "C16" => gen_c16(seed, tier),
        "C17" => gen_c17(seed, tier),
        "C18" => crate::threads::gen_c18(seed, tier),
        _ => panic!("no generator for {}", prop),
    }
}

pub fn evaluate2(sc: &Scenario) -> Outcome {
    match sc.property.as_str() {
        "C05" => eval_c05(sc),
        "C06" => eval_c06(sc),
        "C10" => eval_c10(sc),
        "C11" => eval_c11(sc),
        "C12" => eval_c12(sc),
        "C13" => eval_c13(sc),
        "C15" => eval_c15(sc),
        "C16" => eval_c16(sc),
        "C17" => eval_c17(sc),
        "C18" => crate::threads::eval_c18(sc),
        _ => panic!("no driver for {}", sc.property),
    }
}
