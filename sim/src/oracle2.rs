//! Twin-based property drivers (C05, C06, C10, C11, C12, C13, C15, C16, C17, C18).

use crate::gen::Tier;
use crate::oracle::Outcome;
use crate::scenario::*;

pub fn generate2(prop: &str, _seed: u64, _tier: Tier) -> Scenario {
    panic!("no generator for {}", prop)
}

pub fn evaluate2(sc: &Scenario) -> Outcome {
    panic!("no driver for {}", sc.property)
}
