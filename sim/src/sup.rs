//! Supervisor / worker protocol, minimiser, known findings, evidence.

use crate::gen::Tier;
use crate::oracle::{evaluate, generate, Outcome, V};
use crate::rng::run_seed;
use crate::scenario::*;
use serde::{Deserialize, Serialize};
use serde_json::json;
use std::collections::{BTreeMap, HashSet};
use std::io::{BufRead, BufReader, Write};
use std::path::{Path as FsPath, PathBuf};
use std::process::{Child, Command, Stdio};
use std::sync::mpsc;
use std::time::{Duration, Instant};

pub fn verif_root() -> PathBuf {
    // <root>/sim/target/release/rsim  ->  <root>
    if let Ok(r) = std::env::var("VERIF_ROOT") {
        return PathBuf::from(r);
    }
    let exe = std::env::current_exe().unwrap();
    let mut p = exe.as_path();
    for _ in 0..4 {
        p = p.parent().unwrap_or(FsPath::new("/verif"));
    }
    p.to_path_buf()
}

pub fn tier_of(s: &str) -> Tier {
    if s == "thorough" {
        Tier::Thorough
    } else {
        Tier::Quick
    }
}

pub fn tier_name(t: Tier) -> &'static str {
    match t {
        Tier::Quick => "quick",
        Tier::Thorough => "thorough",
    }
}

// ---------------------------------------------------------------------------------------
// worker
// ---------------------------------------------------------------------------------------

pub fn worker_main(prop: &str, tier: Tier, base: u64, start: u64, end: u64, stride: u64) {
    crate::exec::enable_heartbeat();
    let stdout = std::io::stdout();
    let mut i = start;
    while i < end {
        let seed = run_seed(base, prop, i);
        {
            let mut o = stdout.lock();
            let _ = writeln!(o, "B {}", i);
            let _ = o.flush();
        }
        let sc = generate(prop, seed, tier);
        let out = evaluate(&sc);
        // determinism recheck on a deterministic 1-in-32 subset of runs
        let mut nondet = false;
        if crate::rng::mix(seed ^ 0xD37) % 32 == 0 {
            let sc2 = generate(prop, seed, tier);
            let out2 = evaluate(&sc2);
            if out2.digest != out.digest || sc2 != sc {
                nondet = true;
            }
            let mut o = stdout.lock();
            let _ = writeln!(o, "R {} {}", i, if nondet { "MISMATCH" } else { "same" });
        }
        let js = serde_json::to_string(&out).unwrap();
        let mut o = stdout.lock();
        let _ = writeln!(o, "E {} {}", i, js);
        let _ = o.flush();
        i += stride;
    }
}

// ---------------------------------------------------------------------------------------
// child evaluation (replay / minimiser)
// ---------------------------------------------------------------------------------------

#[derive(Debug, Clone)]
pub enum ChildResult {
    Done(Outcome),
    Died(String),
}

pub fn eval_file_main(path: &str) {
    let txt = std::fs::read_to_string(path).expect("read scenario");
    let sc: Scenario = serde_json::from_str(&txt).expect("parse scenario");
    crate::exec::enable_heartbeat();
    let out = evaluate(&sc);
    println!("OUTCOME {}", serde_json::to_string(&out).unwrap());
}

/// Waits for the child; gives up when it has been silent (no line on stdout, see `exec::heartbeat`) for `secs`.
fn wait_timeout(child: &mut Child, secs: u64, activity: &std::sync::Arc<std::sync::atomic::AtomicU64>) -> Option<std::process::ExitStatus> {
    let t0 = Instant::now();
    loop {
        match child.try_wait() {
            Ok(Some(st)) => return Some(st),
            Ok(None) => {
                let last = Duration::from_millis(activity.load(std::sync::atomic::Ordering::Relaxed));
                if t0.elapsed().saturating_sub(last) > Duration::from_secs(secs) {
                    let _ = child.kill();
                    let _ = child.wait();
                    return None;
                }
                std::thread::sleep(Duration::from_millis(2));
            }
            Err(_) => return None,
        }
    }
}

/// Evaluate a scenario in a fresh child process.
pub fn eval_in_child(sc: &Scenario, tag: &str) -> ChildResult {
    let dir = verif_root().join("replays").join("tmp");
    let _ = std::fs::create_dir_all(&dir);
    let file = dir.join(format!("{}-{}.json", std::process::id(), tag));
    std::fs::write(&file, serde_json::to_string(sc).unwrap()).unwrap();
    let r = eval_path_in_child(&file);
    let _ = std::fs::remove_file(&file);
    r
}

pub fn eval_path_in_child(file: &FsPath) -> ChildResult {
    let exe = std::env::current_exe().unwrap();
    let mut child = Command::new(exe)
        .arg("eval")
        .arg(file)
        .env("RSIM_VERBOSE_PANIC", "1")
        .stdout(Stdio::piped())
        .stderr(Stdio::piped())
        .spawn()
        .expect("spawn child");
    let so = child.stdout.take().unwrap();
    let mut se = child.stderr.take().unwrap();
    let activity = std::sync::Arc::new(std::sync::atomic::AtomicU64::new(0));
    let act2 = activity.clone();
    let t_spawn = Instant::now();
    let h1 = std::thread::spawn(move || {
        let mut s = String::new();
        for line in BufReader::new(so).lines() {
            match line {
                Ok(l) => {
                    act2.store(t_spawn.elapsed().as_millis() as u64, std::sync::atomic::Ordering::Relaxed);
                    if l != "H" {
                        s.push_str(&l);
                        s.push('\n');
                    }
                }
                Err(_) => break,
            }
        }
        s
    });
    let h2 = std::thread::spawn(move || {
        let mut s = String::new();
        let _ = std::io::Read::read_to_string(&mut se, &mut s);
        s
    });
    let st = wait_timeout(&mut child, 240, &activity);
    let out = h1.join().unwrap_or_default();
    let err = h2.join().unwrap_or_default();
    for line in out.lines() {
        if let Some(js) = line.strip_prefix("OUTCOME ") {
            if let Ok(o) = serde_json::from_str::<Outcome>(js) {
                return ChildResult::Done(o);
            }
        }
    }
    let why = match st {
        None => "timeout (240 s without a sign of life): call did not return".to_string(),
        Some(s) => format!("{:?}", s),
    };
    let last = err
        .lines()
        .filter(|l| l.starts_with("PANIC: "))
        .last()
        .or_else(|| err.lines().rev().find(|l| !l.trim().is_empty()))
        .unwrap_or("")
        .to_string();
    ChildResult::Died(format!("process died: {} {}", why, last.chars().take(300).collect::<String>()))
}

/// The violation class used to decide "same failure" during minimisation.
pub fn class_of(r: &ChildResult, prop: &str) -> Option<(String, String)> {
    match r {
        ChildResult::Died(_) => Some((prop.to_string(), "process-died".to_string())),
        ChildResult::Done(o) => o.viol.first().map(|v| (v.prop.clone(), v.clause.clone())),
    }
}

fn first_viol(r: &ChildResult, prop: &str) -> Option<V> {
    match r {
        ChildResult::Died(m) => Some(V { prop: prop.to_string(), clause: "process-died".into(), step: 0, detail: m.clone() }),
        ChildResult::Done(o) => o.viol.first().cloned(),
    }
}

// ---------------------------------------------------------------------------------------
// minimiser
// ---------------------------------------------------------------------------------------

fn drop_ops(sc: &Scenario, from: usize, to: usize) -> Scenario {
    let mut s = sc.clone();
    let n = to - from;
    s.ops.drain(from..to);
    let adj = |i: usize| -> Option<usize> {
        if i < from {
            Some(i)
        } else if i >= to {
            Some(i - n)
        } else {
            None
        }
    };
    s.twin = match &sc.twin {
        Twin::Reset { prefix } => Twin::Reset { prefix: if *prefix >= to { prefix - n } else if *prefix > from { from } else { *prefix } },
        Twin::Skip { idx } => Twin::Skip { idx: idx.iter().filter_map(|i| adj(*i)).collect() },
        Twin::Paths { idx, paths } => {
            let mut ni = vec![];
            let mut np = vec![];
            for (i, p) in idx.iter().zip(paths.iter()) {
                if let Some(j) = adj(*i) {
                    ni.push(j);
                    np.push(*p);
                }
            }
            Twin::Paths { idx: ni, paths: np }
        }
        t => t.clone(),
    };
    s
}

/// Apply a configuration simplification to the scenario's config and to the twin's second config.
fn with_cfg(sc: &Scenario, f: &dyn Fn(&mut Config)) -> Scenario {
    let mut s = sc.clone();
    f(&mut s.config);
    if let Twin::Chunking { config_b, .. } = &mut s.twin {
        f(config_b);
    }
    s
}

fn simplify_chunking(sc: &Scenario) -> Vec<Scenario> {
    let mut v = Vec::new();
    let c = &sc.config;
    if let Twin::Chunking { frames, setchunk_a, setchunk_b, steps, .. } = &sc.twin {
        let set = |fr: u64, a: &Vec<usize>, b: &Vec<usize>, st: &Vec<(u64, f64)>| -> Scenario {
            let mut s = sc.clone();
            if let Twin::Chunking { frames, setchunk_a, setchunk_b, steps, .. } = &mut s.twin {
                *frames = fr;
                *setchunk_a = a.clone();
                *setchunk_b = b.clone();
                *steps = st.clone();
            }
            s
        };
        let min_frames = steps.last().map(|s| s.0 + 50).unwrap_or(50);
        for f in [*frames / 2, *frames * 3 / 4, *frames - (*frames / 10).max(1)] {
            if f >= min_frames && f < *frames {
                v.push(set(f, setchunk_a, setchunk_b, steps));
            }
        }
        if !steps.is_empty() {
            let mut st = steps.clone();
            st.pop();
            v.push(set(*frames, setchunk_a, setchunk_b, &st));
        }
        if !setchunk_a.is_empty() {
            let mut a = setchunk_a.clone();
            a.pop();
            v.push(set(*frames, &a, setchunk_b, steps));
            v.push(set(*frames, &vec![], setchunk_b, steps));
        }
        if !setchunk_b.is_empty() {
            let mut b = setchunk_b.clone();
            b.pop();
            v.push(set(*frames, setchunk_a, &b, steps));
            v.push(set(*frames, setchunk_a, &vec![], steps));
        }
    }
    if c.channels > 1 {
        v.push(with_cfg(sc, &|c| c.channels = 1));
    }
    if c.f32 {
        v.push(with_cfg(sc, &|c| c.f32 = false));
    }
    if c.kind.is_sinc() {
        for l in [8usize, 16, 32, 64] {
            if l < c.sinc_len {
                v.push(with_cfg(sc, &move |c| c.sinc_len = l));
            }
        }
        for o in [2usize, 4, 16] {
            if o < c.oversampling {
                v.push(with_cfg(sc, &move |c| c.oversampling = o));
            }
        }
    }
    v
}

fn simplify_candidates(sc: &Scenario) -> Vec<Scenario> {
    if matches!(sc.twin, Twin::Chunking { .. }) {
        return simplify_chunking(sc);
    }
    if matches!(sc.twin, Twin::Threads { .. }) {
        return simplify_threads(sc);
    }
    let mut v = Vec::new();
    let c = &sc.config;
    // fewer channels
    if c.channels > 1 {
        let mut s = sc.clone();
        s.config.channels = 1;
        if let Some(m) = &mut s.config.mask {
            m.truncate(1);
        }
        v.push(s);
    }
    if c.mask.is_some() && !matches!(sc.twin, Twin::Mono) {
        let mut s = sc.clone();
        s.config.mask = None;
        s.config.empty_inactive = false;
        v.push(s);
    }
    // plain calls
    {
        let mut s = sc.clone();
        let mut changed = false;
        for op in s.ops.iter_mut() {
            if let Op::Process { slack_in, slack_out, slices, .. } = op {
                if *slack_in != 0 || *slack_out != 0 || *slices {
                    *slack_in = 0;
                    *slack_out = 0;
                    *slices = false;
                    changed = true;
                }
            }
        }
        if changed {
            v.push(s);
        }
    }
    if !matches!(sc.twin, Twin::Paths { .. }) {
        let mut s = sc.clone();
        let mut changed = false;
        for op in s.ops.iter_mut() {
            if let Op::Process { path, valid, .. } = op {
                if *path != Path::IntoBuffer && !(path.is_partial() && valid.is_some()) {
                    *path = Path::IntoBuffer;
                    changed = true;
                }
            }
        }
        if changed {
            v.push(s);
        }
    }
    // smaller chunk
    for d in [c.chunk / 2, c.chunk.saturating_sub(1), 64, 16] {
        if d >= 1 && d < c.chunk {
            let mut s = sc.clone();
            s.config.chunk = d;
            if s.config.sub_chunks > d {
                s.config.sub_chunks = 1;
            }
            v.push(s);
        }
    }
    if c.kind.is_sinc() {
        for l in [8usize, 16, 32, 64] {
            if l < c.sinc_len {
                let mut s = sc.clone();
                s.config.sinc_len = l;
                v.push(s);
            }
        }
        for o in [1usize, 2, 4, 16] {
            if o < c.oversampling && !(o == 1 && c.interp >= 2) {
                let mut s = sc.clone();
                s.config.oversampling = o;
                v.push(s);
            }
        }
    }
    if c.f32 && !matches!(sc.twin, Twin::OtherType) {
        let mut s = sc.clone();
        s.config.f32 = false;
        v.push(s);
    }
    if c.kind.is_fft() && c.sub_chunks > 1 {
        let mut s = sc.clone();
        s.config.sub_chunks = 1;
        v.push(s);
    }
    // rounder numbers
    let round = |x: f64, d: i32| -> f64 {
        let p = 10f64.powi(d);
        (x * p).round() / p
    };
    for d in [1, 2, 4] {
        let r = round(c.ratio, d);
        if r > 0.0 && r != c.ratio {
            let mut s = sc.clone();
            s.config.ratio = r;
            v.push(s);
            break;
        }
    }
    for d in [1, 2, 4] {
        let r = round(c.max_rel, d);
        if r >= 1.0 && r != c.max_rel && r >= c.max_rel {
            let mut s = sc.clone();
            s.config.max_rel = r;
            v.push(s);
            break;
        }
    }
    v
}

fn simplify_threads(sc: &Scenario) -> Vec<Scenario> {
    let mut v = Vec::new();
    if let Twin::Threads { threads, instances, schedule, .. } = &sc.twin {
        // drop one instance at a time (keep at least one)
        if instances.len() > 1 {
            for k in 0..instances.len() {
                let mut s = sc.clone();
                if let Twin::Threads { instances, .. } = &mut s.twin {
                    instances.remove(k);
                }
                v.push(s);
            }
        }
        // shorten histories
        for k in 0..instances.len() {
            if instances[k].ops.len() > 1 {
                let mut s = sc.clone();
                if let Twin::Threads { instances, .. } = &mut s.twin {
                    let n = instances[k].ops.len();
                    instances[k].ops.truncate(n / 2);
                }
                v.push(s);
            }
        }
        if *threads > 2 {
            let mut s = sc.clone();
            if let Twin::Threads { threads, .. } = &mut s.twin {
                *threads = 2;
            }
            v.push(s);
        }
        // no migrations
        if schedule.iter().any(|x| x.2 >= 0) {
            let mut s = sc.clone();
            if let Twin::Threads { schedule, .. } = &mut s.twin {
                schedule.iter_mut().for_each(|x| x.2 = -1);
            }
            v.push(s);
        }
    }
    v
}

pub struct Minimised {
    pub scenario: Scenario,
    pub viol: V,
    pub evals: usize,
}

pub fn minimise(sc0: &Scenario, budget: usize) -> Option<Minimised> {
    let prop = sc0.property.clone();
    let r0 = eval_in_child(sc0, "m0");
    let class = class_of(&r0, &prop)?;
    let mut best = sc0.clone();
    let mut best_v = first_viol(&r0, &prop).unwrap();
    let mut evals = 1usize;
    // wall-clock bound as well: the candidates of an ultra-long stream take a minute each
    let t_start = Instant::now();
    let t_budget = Duration::from_secs(if budget > 100 { 420 } else { 150 });
    let try_cand = |cand: &Scenario, best: &mut Scenario, best_v: &mut V, evals: &mut usize| -> bool {
        if *evals >= budget || t_start.elapsed() > t_budget {
            return false;
        }
        *evals += 1;
        let r = eval_in_child(cand, "mc");
        if class_of(&r, &prop).as_ref() == Some(&class) {
            *best = cand.clone();
            *best_v = first_viol(&r, &prop).unwrap();
            true
        } else {
            false
        }
    };
    // 0. streams: shorten the repetition count first (every later candidate then costs less)
    while best.repeat > 0 {
        let mut cand = best.clone();
        cand.repeat = best.repeat / 2;
        if !try_cand(&cand, &mut best, &mut best_v, &mut evals) {
            let mut cand = best.clone();
            cand.repeat = best.repeat / 4 * 3;
            if cand.repeat == best.repeat || !try_cand(&cand, &mut best, &mut best_v, &mut evals) {
                break;
            }
        }
    }
    // 1. cut after the failing step
    if best_v.clause != "process-died" && best_v.step + 1 < best.ops.len() {
        let cand = drop_ops(&best, best_v.step + 1, best.ops.len());
        try_cand(&cand, &mut best, &mut best_v, &mut evals);
    }
    // 2. ddmin over ops
    let mut n = 2usize;
    while best.ops.len() >= 2 && evals < budget {
        let len = best.ops.len();
        let chunk = (len + n - 1) / n;
        let mut reduced = false;
        let mut start = 0;
        while start < best.ops.len() {
            let end = (start + chunk).min(best.ops.len());
            let cand = drop_ops(&best, start, end);
            if try_cand(&cand, &mut best, &mut best_v, &mut evals) {
                reduced = true;
            } else {
                start = end;
            }
            if evals >= budget {
                break;
            }
        }
        if reduced {
            n = (n.saturating_sub(1)).max(2);
        } else {
            if chunk <= 1 {
                break;
            }
            n = (n * 2).min(len);
        }
    }
    // 3. argument simplification to a fixpoint
    let mut progress = true;
    while progress && evals < budget {
        progress = false;
        for cand in simplify_candidates(&best) {
            if try_cand(&cand, &mut best, &mut best_v, &mut evals) {
                progress = true;
                break;
            }
        }
    }
    Some(Minimised { scenario: best, viol: best_v, evals })
}

// ---------------------------------------------------------------------------------------
// known findings
// ---------------------------------------------------------------------------------------

#[derive(Debug, Clone, Serialize, Deserialize)]
pub struct Finding {
    pub id: String,
    /// properties whose checks can run into this finding
    pub properties: Vec<String>,
    /// for fixed entries: the literal "fixed: property=<id> <commit> <what failed>" line
    #[serde(default)]
    pub line: String,
    /// the trigger is a pure configuration predicate and the configuration fails on its first call
    #[serde(default)]
    pub config_level: bool,
    /// "open" or "fixed"
    pub status: String,
    #[serde(default)]
    pub commit: String,
    /// clauses this finding may surface as
    pub clauses: Vec<String>,
    pub kinds: Vec<Kind>,
    /// named predicate evaluated on the minimised scenario
    pub trigger: String,
    pub text: String,
}

pub fn load_findings() -> Vec<Finding> {
    let p = verif_root().join("known_findings.json");
    match std::fs::read_to_string(&p) {
        Ok(t) => serde_json::from_str(&t).unwrap_or_else(|e| {
            eprintln!("HARNESS-ERROR: cannot parse known_findings.json: {}", e);
            std::process::exit(2)
        }),
        Err(_) => vec![],
    }
}

/// Trigger predicates (harness code, evaluated on the minimised failing scenario).
pub fn trigger_matches(name: &str, sc: &Scenario, _v: &V) -> bool {
    let c = &sc.config;
    match name {
        "never" => false,
        // D11: sinc resampler with oversampling_factor 1 and a 3- or 4-point interpolation
        "sinc_oversampling1_quadratic_or_cubic" => c.kind.is_sinc() && c.oversampling == 1 && (c.interp % 4) >= 2,
        // D18: sinc resamplers with the degenerate filter length 0 (no history frames in front of the read position)
        "sinc_out_sinc_len_zero" => c.kind.is_sinc() && c.sinc_len_rounded() == 0,
        _ => {
            let _ = c;
            false
        }
    }
}

pub fn match_finding<'a>(fs: &'a [Finding], sc: &Scenario, v: &V) -> Option<&'a Finding> {
    fs.iter().find(|f| {
        f.status == "open" && f.properties.iter().any(|p| p == &sc.property) && f.clauses.iter().any(|c| c == &v.clause) && f.kinds.contains(&sc.config.kind) && trigger_matches(&f.trigger, sc, v)
    })
}

// ---------------------------------------------------------------------------------------
// supervisor
// ---------------------------------------------------------------------------------------

pub struct CheckCfg {
    pub prop: String,
    pub tier: Tier,
    pub base: u64,
    pub runs: u64,
    pub workers: u64,
    pub level: String,
    pub write_evidence: bool,
}

enum Msg {
    Beat(usize),
    Begin(usize, u64),
    End(usize, u64, Box<Outcome>),
    Recheck(usize, u64, bool),
    Exit(usize),
}

struct Slot {
    child: Child,
    /// first run index of the current worker process (its process history starts there)
    seg_start: u64,
    current: Option<u64>,
    last_activity: Instant,
    done: bool,
}

fn spawn_worker(cc: &CheckCfg, w: usize, start: u64, tx: mpsc::Sender<Msg>) -> Child {
    let exe = std::env::current_exe().unwrap();
    let mut child = Command::new(exe)
        .args(["worker", &cc.prop, tier_name(cc.tier), &cc.base.to_string(), &start.to_string(), &cc.runs.to_string(), &cc.workers.to_string()])
        .stdout(Stdio::piped())
        .stderr(Stdio::null())
        .spawn()
        .expect("spawn worker");
    let so = child.stdout.take().unwrap();
    std::thread::spawn(move || {
        let rd = BufReader::new(so);
        for line in rd.lines() {
            let line = match line {
                Ok(l) => l,
                Err(_) => break,
            };
            let mut it = line.splitn(3, ' ');
            let tag = it.next().unwrap_or("");
            let i: u64 = it.next().and_then(|x| x.parse().ok()).unwrap_or(u64::MAX);
            match tag {
                "B" => {
                    let _ = tx.send(Msg::Begin(w, i));
                }
                "H" => {
                    let _ = tx.send(Msg::Beat(w));
                }
                "E" => {
                    if let Some(js) = it.next() {
                        if let Ok(o) = serde_json::from_str::<Outcome>(js) {
                            let _ = tx.send(Msg::End(w, i, Box::new(o)));
                        }
                    }
                }
                "R" => {
                    let _ = tx.send(Msg::Recheck(w, i, it.next() == Some("MISMATCH")));
                }
                _ => {}
            }
        }
        let _ = tx.send(Msg::Exit(w));
    });
    child
}

fn compact_sample(sc: &Scenario) -> serde_json::Value {
    let mut v = serde_json::to_value(sc).unwrap();
    if let Some(ops) = v.get_mut("ops").and_then(|o| o.as_array_mut()) {
        let n = ops.len();
        if n > 16 {
            ops.truncate(16);
            ops.push(json!(format!("... {} more ops", n - 16)));
        }
    }
    if let Some(tw) = v.get_mut("twin") {
        let s = tw.to_string();
        if s.len() > 1500 {
            *tw = json!(format!("{} ... ({} bytes)", &s[..1500], s.len()));
        }
    }
    v
}

pub fn check_main(cc: &CheckCfg) -> i32 {
    let t0 = Instant::now();
    let (tx, rx) = mpsc::channel::<Msg>();
    let mut slots: Vec<Slot> = Vec::new();
    for w in 0..cc.workers as usize {
        let child = spawn_worker(cc, w, w as u64, tx.clone());
        slots.push(Slot { child, seg_start: w as u64, current: None, last_activity: Instant::now(), done: false });
    }
    let mut completed: u64 = 0;
    let mut died: Vec<(u64, String)> = Vec::new();
    let mut failing: Vec<(u64, V)> = Vec::new();
    let mut seg_of: BTreeMap<u64, u64> = BTreeMap::new();
    let mut nondet: Vec<u64> = Vec::new();
    let mut rechecked: u64 = 0;
    let mut agg = crate::oracle::Cover::default();
    let mut shapes: HashSet<u64> = HashSet::new();
    let mut shapes_nontrivial: HashSet<u64> = HashSet::new();
    let mut trans: HashSet<u64> = HashSet::new();
    let mut kinds: BTreeMap<String, u64> = BTreeMap::new();
    let mut profiles: BTreeMap<String, u64> = BTreeMap::new();
    let mut digest_all: u64 = 0;
    let hang_limit = Duration::from_secs(std::env::var("RSIM_HANG_S").ok().and_then(|s| s.parse().ok()).unwrap_or(300));
    let mut live = cc.workers as usize;
    while live > 0 {
        match rx.recv_timeout(Duration::from_millis(500)) {
            Ok(Msg::Begin(w, i)) => {
                slots[w].current = Some(i);
                slots[w].last_activity = Instant::now();
            }
            Ok(Msg::Beat(w)) => {
                slots[w].last_activity = Instant::now();
            }
            Ok(Msg::Recheck(_, i, mism)) => {
                rechecked += 1;
                if mism {
                    nondet.push(i);
                }
            }
            Ok(Msg::End(w, i, o)) => {
                slots[w].current = None;
                slots[w].last_activity = Instant::now();
                completed += 1;
                digest_all ^= crate::rng::mix(o.digest ^ i);
                if let Some(v) = o.viol.first() {
                    failing.push((i, v.clone()));
                    seg_of.insert(i, slots[w].seg_start);
                }
                let c = &o.cov;
                agg.ops += c.ops;
                agg.calls += c.calls;
                agg.executions += c.executions;
                agg.frames_in += c.frames_in;
                agg.frames_out += c.frames_out;
                agg.sim_seconds += c.sim_seconds;
                for (k, v) in &c.faults {
                    agg.fault(k, *v);
                }
                for (k, v) in &c.probes {
                    agg.probe(k, *v);
                }
                shapes.insert(c.shape);
                if c.nontrivial {
                    shapes_nontrivial.insert(c.shape);
                }
                for t in &c.trans {
                    trans.insert(*t);
                }
                *kinds.entry(c.kind.clone()).or_insert(0) += 1;
                *profiles.entry(c.profile.clone()).or_insert(0) += 1;
            }
            Ok(Msg::Exit(w)) => {
                let st = slots[w].child.wait().ok();
                if let Some(i) = slots[w].current.take() {
                    // died in the middle of run i
                    died.push((i, format!("{:?}", st)));
                    let next = i + cc.workers;
                    if next < cc.runs {
                        let child = spawn_worker(cc, w, next, tx.clone());
                        slots[w].child = child;
                        slots[w].seg_start = next;
                        slots[w].last_activity = Instant::now();
                        continue;
                    }
                }
                slots[w].done = true;
                live -= 1;
            }
            Err(mpsc::RecvTimeoutError::Timeout) => {
                for s in slots.iter_mut() {
                    if !s.done && s.current.is_some() && s.last_activity.elapsed() > hang_limit {
                        let _ = s.child.kill();
                        s.last_activity = Instant::now();
                    }
                }
            }
            Err(_) => break,
        }
    }
    let sim_wall = t0.elapsed().as_secs_f64();
    failing.sort_by_key(|x| x.0);
    died.sort_by_key(|x| x.0);

    // --- triage: minimise the first few failures of each distinct clause ---
    let findings = load_findings();
    let mut reported: Vec<serde_json::Value> = Vec::new();
    let mut known_lines: Vec<String> = Vec::new();
    let mut violations = 0u64;
    let mut seen_class: BTreeMap<String, u32> = BTreeMap::new();
    let mut harness_panics: Vec<String> = Vec::new();
    let mut todo: Vec<(u64, String)> = Vec::new();
    for (i, v) in &failing {
        todo.push((*i, v.clause.clone()));
    }
    for (i, _) in &died {
        todo.push((*i, "process-died".into()));
    }
    todo.sort();
    let mut by_clause: BTreeMap<String, u64> = BTreeMap::new();
    for (_, c) in &todo {
        *by_clause.entry(c.clone()).or_insert(0) += 1;
    }
    if std::env::var("RSIM_DEBUG").is_ok() {
        for (i, v) in &failing {
            println!("FAIL run={} clause={} step={} detail={}", i, v.clause, v.step, v.detail);
        }
        println!("DIED {:?}", died);
    }
    if !by_clause.is_empty() {
        println!("FAILING-RUNS-BY-CLAUSE {:?}", by_clause);
    }
    let replay_dir = verif_root().join("replays");
    let _ = std::fs::create_dir_all(&replay_dir);
    let mut unmin_known = 0u64;
    let per_class = if cc.tier == Tier::Quick { 2 } else { 3 };
    let mut known_ids: BTreeMap<String, (String, u64)> = BTreeMap::new();
    let mut unreported = 0u64;
    let _ = (&mut seen_class, per_class, &mut unmin_known);
    for (i, clause) in &todo {
        let seed = run_seed(cc.base, &cc.prop, *i);
        let sc = generate(&cc.prop, seed, cc.tier);
        // findings whose trigger is a pure configuration predicate (the configuration cannot get past its
        // first processing call) are matched without minimising
        let v0 = V { prop: cc.prop.clone(), clause: clause.clone(), step: 0, detail: String::new() };
        if let Some(f) = match_finding(&findings, &sc, &v0) {
            if f.config_level {
                known_ids.entry(f.id.clone()).or_insert((f.text.clone(), 0)).1 += 1;
                continue;
            }
        }
        if violations >= 8 {
            unreported += 1;
            continue;
        }
        let m = minimise(&sc, if violations < 3 { 220 } else { 60 });
        let (msc, mv, evals) = match m {
            Some(m) => (m.scenario, m.viol, m.evals),
            None => {
                if cc.prop == "C18" {
                    // C18 is exactly the property that results do not depend on what else the process did: a failure that
                    // does not reproduce in a fresh process depends on the worker's history. The replay is that history.
                    violations += 1;
                    let start = seg_of.get(i).copied().unwrap_or(*i % cc.workers);
                    let path = replay_dir.join(format!("{}-history-{}.json", cc.prop, seed));
                    let v = failing.iter().find(|f| f.0 == *i).map(|f| f.1.clone());
                    let body = json!({"history": {"property": cc.prop, "tier": tier_name(cc.tier), "base": cc.base, "start": start, "stride": cc.workers, "upto": i},
                        "violation": v, "note": "the run fails only after the earlier runs of the same worker process: results depend on process history"});
                    std::fs::write(&path, serde_json::to_string_pretty(&body).unwrap()).unwrap();
                    println!("VIOLATION property={} replay={}", cc.prop, path.display());
                    println!("  clause=depends-on-process-history detail=run {} fails in its worker process (runs {}, {}+{}, ...) but not alone in a fresh process", i, start, start, cc.workers);
                    reported.push(json!({"run": i, "seed": seed, "clause": "depends-on-process-history", "replay": path.display().to_string()}));
                    continue;
                }
                // did not reproduce in a fresh process: harness nondeterminism
                nondet.push(*i);
                continue;
            }
        };
        if let Some(f) = match_finding(&findings, &msc, &mv) {
            known_ids.entry(f.id.clone()).or_insert((f.text.clone(), 0)).1 += 1;
            continue;
        }
        // a panic located in the simulator's own sources (relative path `src/...`; the library's are absolute) is a
        // defect of the harness, not of the code under test: exit 2, no VIOLATION line
        if mv.clause == "process-died" && mv.detail.contains("unix_wait_status(25856)") && mv.detail.contains("PANIC: ") && mv.detail.contains(" @ src/") {
            harness_panics.push(format!("run {} (seed {}): {}", i, seed, mv.detail));
            continue;
        }
        violations += 1;
        let path = replay_dir.join(format!("{}-{}.json", cc.prop, seed));
        let body = json!({"violation": mv, "original_run_index": i, "original_seed": seed, "minimiser_evaluations": evals, "scenario": msc});
        std::fs::write(&path, serde_json::to_string_pretty(&body).unwrap()).unwrap();
        println!("VIOLATION property={} replay={}", cc.prop, path.display());
        println!("  clause={} step={} detail={}", mv.clause, mv.step, mv.detail);
        reported.push(json!({"run": i, "seed": seed, "clause": mv.clause, "detail": mv.detail, "replay": path.display().to_string(), "ops_after_minimisation": msc.ops.len()}));
    }
    if cc.prop == "C18" {
        // a scenario that gives different results when evaluated twice in the same worker process
        let rechecks: Vec<u64> = nondet.drain(..).collect();
        for i in rechecks {
            violations += 1;
            let seed = run_seed(cc.base, &cc.prop, i);
            let start = i % cc.workers;
            let path = replay_dir.join(format!("{}-history-{}.json", cc.prop, seed));
            let body = json!({"history": {"property": cc.prop, "tier": tier_name(cc.tier), "base": cc.base, "start": start, "stride": cc.workers, "upto": i, "recheck": true},
                "note": "the same scenario evaluated twice in one worker process gave different digests: results depend on process history"});
            std::fs::write(&path, serde_json::to_string_pretty(&body).unwrap()).unwrap();
            println!("VIOLATION property={} replay={}", cc.prop, path.display());
            println!("  clause=same-scenario-twice-differs detail=run {} evaluated twice in its worker process gives different results", i);
        }
    }
    if unreported > 0 {
        println!("NOTE {} further failing runs were not minimised (report limit reached)", unreported);
    }
    for (id, (text, n)) in &known_ids {
        let line = format!("KNOWN-FINDING: property={} {} [{}; matched {} runs]", cc.prop, text, id, n);
        println!("{}", line);
        known_lines.push(line);
    }
    let _ = unmin_known;
    let wall = t0.elapsed().as_secs_f64();

    // --- evidence ---
    let mut samples = Vec::new();
    for i in 0..3u64.min(cc.runs) {
        let seed = run_seed(cc.base, &cc.prop, i);
        samples.push(compact_sample(&generate(&cc.prop, seed, cc.tier)));
    }
    let harness_error = completed == 0 || !nondet.is_empty() || !harness_panics.is_empty();
    let evidence = json!({
        "property_id": cc.prop,
        "tier": tier_name(cc.tier),
        "seed": cc.base,
        "level": cc.level,
        "wall_s": wall,
        "violations": violations,
        "coverage": {
            "evaluations": completed,
            "distinct_nontrivial": shapes_nontrivial.len(),
            "rule": "one evaluation = one simulated run: a scenario (configuration, signal, op history with injected faults, twin/schedule) drawn from SplitMix64(run_seed(VERIF_SEED, property, i)) and executed against real rubato code, oracle evaluated on the recorded history. distinct = distinct history shapes (hash of resampler kind, sample type, channel count and the sequence of op kinds incl. fault ops); non-trivial = at least two completed processing calls and at least one injected fault/control event fired in the run.",
            "samples": samples,
            "runs_requested": cc.runs,
            "runs_completed": completed,
            "runs_died": died.len(),
            "runs_failing": failing.len(),
            "runs_per_hour": if sim_wall > 0.0 { completed as f64 / sim_wall * 3600.0 } else { 0.0 },
            "seeds": {"base": cc.base, "first_run_seed": run_seed(cc.base, &cc.prop, 0), "last_run_seed": run_seed(cc.base, &cc.prop, cc.runs.saturating_sub(1)), "count": cc.runs},
            "executions_of_real_code": agg.executions,
            "ops_executed": agg.ops,
            "processing_calls": agg.calls,
            "frames_in": agg.frames_in,
            "frames_out": agg.frames_out,
            "simulated_audio_seconds_at_48k": agg.frames_in as f64 / 48000.0,
            "simulated_des_seconds": agg.sim_seconds,
            "faults_fired": agg.faults,
            "probes_hit": agg.probes,
            "distinct_history_shapes": shapes.len(),
            "distinct_abstract_transitions": trans.len(),
            "runs_by_kind": kinds,
            "runs_by_profile": profiles,
            "determinism_rechecks": rechecked,
            "determinism_mismatches": nondet.len(),
            "batch_digest": format!("{:016x}", digest_all),
            "workers": cc.workers,
            "known_findings_matched": known_lines,
            "reported": reported,
            "real_vs_stub": {
                "real": ["rubato resamplers, kernels, windows, sinc tables (from /repo working tree)", "rustfft / realfft", "std allocator behind the counting wrapper"],
                "stub_or_seam": ["global allocator wrapper (counts, never fails)", "CPU feature answers (hook H1) when cpu_mask != 0", "SincInterpolator = harness linear probe in position mode (kernel: Probe)", "SincInterpolator = harness cross-check wrapper around the real kernels (kernel: Cross)", "SincInterpolator = harness odd-length user interpolator (kernel: Custom)", "harness Resampler implementor exercising the trait's provided methods and the VecResampler wrapper (C16)", "user buffer type whose accessor unwinds, used on a throw-away real resampler (fault F13)", "caller threads with 128-256 KiB stacks and calls issued while the thread unwinds (C18)"]
            }
        },
        "assumptions": [
            "sampling, not proof: holds on the runs listed above",
            "native build with debug assertions and overflow checks: std's unsafe-precondition checks abort on out-of-slice get_unchecked",
            "x86-64 host: NEON kernels not executed"
        ]
    });
    let mut evidence = evidence;
    if let Ok(p) = std::env::var("RSIM_EXTRA_EVIDENCE") {
        if let Ok(t) = std::fs::read_to_string(&p) {
            if let Ok(v) = serde_json::from_str::<serde_json::Value>(&t) {
                evidence["coverage"]["miri_layer"] = v;
            }
        }
    }
    if cc.write_evidence {
        let dir = verif_root().join("evidence");
        let _ = std::fs::create_dir_all(&dir);
        std::fs::write(dir.join(format!("{}.json", cc.prop)), serde_json::to_string_pretty(&evidence).unwrap()).unwrap();
    }
    println!(
        "SUMMARY property={} tier={} seed={} runs={}/{} died={} failing={} violations={} known={} shapes={} transitions={} wall={:.1}s digest={:016x}",
        cc.prop,
        tier_name(cc.tier),
        cc.base,
        completed,
        cc.runs,
        died.len(),
        failing.len(),
        violations,
        known_ids.len(),
        shapes.len(),
        trans.len(),
        wall,
        digest_all
    );
    for h in &harness_panics {
        eprintln!("HARNESS-ERROR: the simulator itself panicked: {}", h);
    }
    if harness_error && harness_panics.is_empty() {
        eprintln!("HARNESS-ERROR: completed={} runs whose failure did not reproduce in a fresh process or whose in-worker re-execution differed: {:?}", completed, nondet);
    }
    // reproducible, minimised violations take precedence over the harness error
    if violations > 0 {
        1
    } else if harness_error {
        2
    } else {
        0
    }
}

/// Replay a replay file in a fresh child; exit 1 and print the violation if it reproduces.
pub fn replay_main(path: &str) -> i32 {
    let txt = match std::fs::read_to_string(path) {
        Ok(t) => t,
        Err(e) => {
            eprintln!("HARNESS-ERROR: cannot read {}: {}", path, e);
            return 2;
        }
    };
    let v: serde_json::Value = serde_json::from_str(&txt).unwrap_or(json!(null));
    if let Some(h) = v.get("history") {
        // replay a worker's whole process history in this process
        let prop = h["property"].as_str().unwrap_or("C18").to_string();
        let tier = tier_of(h["tier"].as_str().unwrap_or("quick"));
        let (base, start, stride, upto) = (h["base"].as_u64().unwrap_or(1), h["start"].as_u64().unwrap_or(0), h["stride"].as_u64().unwrap_or(16).max(1), h["upto"].as_u64().unwrap_or(0));
        let mut i = start;
        while i <= upto {
            let sc = generate(&prop, run_seed(base, &prop, i), tier);
            let out = evaluate(&sc);
            if i == upto && h["recheck"].as_bool().unwrap_or(false) {
                // the same scenario evaluated twice in one process must give the same digests
                let out2 = evaluate(&generate(&prop, run_seed(base, &prop, i), tier));
                return if out2.digest != out.digest {
                    println!("VIOLATION property={} replay={}", prop, path);
                    println!("  clause=same-scenario-twice-differs detail=run {} evaluated twice in the same process gives different results", i);
                    1
                } else {
                    println!("replay of {}: property {} held", path, prop);
                    0
                };
            }
            if i == upto {
                return match out.viol.first() {
                    Some(vv) => {
                        println!("VIOLATION property={} replay={}", prop, path);
                        println!("  clause={} step={} detail={}", vv.clause, vv.step, vv.detail);
                        1
                    }
                    None => {
                        println!("replay of {}: property {} held", path, prop);
                        0
                    }
                };
            }
            i += stride;
        }
        return 0;
    }
    let scv = if v.get("scenario").is_some() { v["scenario"].clone() } else { v.clone() };
    let sc: Scenario = match serde_json::from_value(scv) {
        Ok(s) => s,
        Err(e) => {
            eprintln!("HARNESS-ERROR: cannot parse scenario in {}: {}", path, e);
            return 2;
        }
    };
    let r = eval_in_child(&sc, "replay");
    match first_viol(&r, &sc.property) {
        Some(vv) => {
            println!("VIOLATION property={} replay={}", sc.property, path);
            println!("  clause={} step={} detail={}", vv.clause, vv.step, vv.detail);
            1
        }
        None => {
            println!("replay of {}: property {} held", path, sc.property);
            0
        }
    }
}
