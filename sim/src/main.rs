#![recursion_limit = "512"]
#![allow(dead_code)]
mod alloc;
mod exec;
mod gen;
mod miri;
mod oracle;
mod oracle2;
mod rng;
mod scenario;
mod sup;
mod sut;
mod threads;
mod usertype;

#[global_allocator]
static GLOBAL: alloc::CountingAlloc = alloc::CountingAlloc;

fn default_runs(prop: &str, tier: gen::Tier) -> u64 {
    let (q, t) = match prop {
        "C03" => (120_000, 1_800_000),
        "C04" => (120_000, 1_800_000),
        "C05" => (80_000, 1_200_000),
        "C06" => (80_000, 1_200_000),
        "C07" => (50_000, 600_000),
        "C09" => (120_000, 1_800_000),
        "C10" => (80_000, 1_200_000),
        "C11" => (60_000, 900_000),
        "C12" => (30_000, 450_000),
        "C13" => (60_000, 900_000),
        "C15" => (30_000, 400_000),
        "C16" => (80_000, 1_200_000),
        "C17" => (60_000, 900_000),
        "C18" => (6_000, 80_000),
        _ => (3000, 30000),
    };
    if tier == gen::Tier::Quick {
        q
    } else {
        t
    }
}

fn level_of(prop: &str) -> &'static str {
    match prop {
        "C12" | "C13" => "fault_enumeration",
        _ => "exploration",
    }
}

fn usage() -> ! {
    eprintln!("usage: rsim check <PROP> <quick|thorough> [--runs N] [--workers W] [--no-evidence]\n       rsim replay <file>\n       rsim gen <PROP> <run-index> [tier]\n       rsim eval <file>");
    std::process::exit(2)
}

fn main() {
    exec::install_panic_hook();
    let args: Vec<String> = std::env::args().collect();
    if args.len() < 2 {
        usage();
    }
    let base: u64 = std::env::var("VERIF_SEED").ok().and_then(|s| s.parse().ok()).unwrap_or(1);
    match args[1].as_str() {
        "worker" => {
            let prop = &args[2];
            let tier = sup::tier_of(&args[3]);
            let base: u64 = args[4].parse().unwrap();
            let start: u64 = args[5].parse().unwrap();
            let end: u64 = args[6].parse().unwrap();
            let stride: u64 = args[7].parse().unwrap();
            sup::worker_main(prop, tier, base, start, end, stride);
        }
        "eval" => sup::eval_file_main(&args[2]),
        "solo" => threads::solo_main(&args[2], args[3].parse().unwrap()),
        "miri" => std::process::exit(miri::miri_main(&args[2], args[3].parse().unwrap(), args[4].parse().unwrap(), base)),
        "miri-eval" => std::process::exit(miri::miri_eval(&args[2])),
        "replay" => std::process::exit(sup::replay_main(&args[2])),
        "gen" => {
            let prop = &args[2];
            let i: u64 = args[3].parse().unwrap();
            let tier = sup::tier_of(args.get(4).map(|s| s.as_str()).unwrap_or("quick"));
            let sc = oracle::generate(prop, rng::run_seed(base, prop, i), tier);
            println!("{}", serde_json::to_string_pretty(&sc).unwrap());
        }
        "check" => {
            if args.len() < 4 {
                usage();
            }
            let prop = args[2].clone();
            if !oracle::CLAIMED.contains(&prop.as_str()) {
                eprintln!("HARNESS-ERROR: property {} is not claimed", prop);
                std::process::exit(2);
            }
            let tier = sup::tier_of(&args[3]);
            let mut runs = default_runs(&prop, tier);
            let mut workers: u64 = std::thread::available_parallelism().map(|n| n.get() as u64).unwrap_or(8).min(16);
            let mut write_evidence = true;
            let mut k = 4;
            while k < args.len() {
                match args[k].as_str() {
                    "--runs" => {
                        runs = args[k + 1].parse().unwrap();
                        k += 1;
                    }
                    "--workers" => {
                        workers = args[k + 1].parse().unwrap();
                        k += 1;
                    }
                    "--no-evidence" => write_evidence = false,
                    _ => usage(),
                }
                k += 1;
            }
            let cc = sup::CheckCfg { prop: prop.clone(), tier, base, runs, workers: workers.max(1), level: level_of(&prop).to_string(), write_evidence };
            let code = match std::panic::catch_unwind(|| sup::check_main(&cc)) {
                Ok(c) => c,
                Err(_) => {
                    eprintln!("HARNESS-ERROR: supervisor panicked: {}", exec::LAST_PANIC.with(|p| p.borrow().clone()));
                    2
                }
            };
            std::process::exit(code);
        }
        _ => usage(),
    }
}
