//! C18: baton scheduler over real caller threads, solo references in fresh processes.

use crate::exec::*;
use crate::gen::*;
use crate::oracle::{absorb, tier_budget, Outcome};
use crate::rng::Rng;
use crate::scenario::*;
use std::process::{Command, Stdio};
use std::sync::mpsc::{channel, Receiver, Sender};

pub enum AnyRunner {
    F32(Runner<f32>),
    F64(Runner<f64>),
}

impl AnyRunner {
    pub fn new(cfg: &Config, signal: &Signal) -> Result<AnyRunner, String> {
        let opts = RunOpts { keep_output: false, ..Default::default() };
        if cfg.f32 {
            Runner::<f32>::new(cfg, signal, opts).map(AnyRunner::F32)
        } else {
            Runner::<f64>::new(cfg, signal, opts).map(AnyRunner::F64)
        }
    }
    pub fn step(&mut self, i: usize, op: &Op) {
        match self {
            AnyRunner::F32(r) => r.step(i, op),
            AnyRunner::F64(r) => r.step(i, op),
        }
    }
    pub fn dead(&self) -> bool {
        match self {
            AnyRunner::F32(r) => r.dead(),
            AnyRunner::F64(r) => r.dead(),
        }
    }
    pub fn finish(self) -> Trace {
        match self {
            AnyRunner::F32(r) => r.finish(),
            AnyRunner::F64(r) => r.finish(),
        }
    }
}

/// What is compared between the scheduled run and the solo reference: one line per step.
pub fn step_lines(t: &Trace) -> Vec<String> {
    let mut v = Vec::with_capacity(t.steps.len() + 1);
    v.push(format!("init {:?}", t.init));
    for s in &t.steps {
        v.push(format!("{} {:?} {:016x} {:?}", s.op, s.res, s.digest, s.post));
    }
    if let Some(e) = &t.construct_err {
        v.push(format!("construct_err {}", e));
    }
    v
}

pub fn gen_c18(seed: u64, tier: Tier) -> Scenario {
    let mut rng = Rng::new(seed);
    let threads = rng.usize_in(2, 16) as u8;
    let m = rng.usize_in(threads as usize, (threads as usize + 4).min(20));
    let dom = Dom { edges: false, max_chunk: 512, max_channels: 3, max_sinc_len: 128, max_oversampling: 256, fft_cap: 200, wild: true, ..Dom::default() };
    let per = tier_budget(tier) * 2.0 / m as f64;
    let mut instances: Vec<InstanceSpec> = Vec::new();
    while instances.len() < m {
        // identical-config pairs / triples at a fair rate: they share planner caches and tables keyed by config
        if !instances.is_empty() && rng.chance(0.45) {
            let k = rng.below(instances.len() as u64) as usize;
            let mut c = instances[k].clone();
            if rng.chance(0.5) {
                c.home = rng.below(threads as u64) as u8;
            }
            if rng.chance(0.5) {
                // same config, different data and history
                c.signal = gen_signal(&mut rng);
            }
            if rng.chance(0.6) {
                // a sibling: exactly one construction parameter differs, possibly only slightly (caches and memo
                // tables keyed too coarsely hand it the other instance's tables)
                let e = 10f64.powf(-rng.uniform(3.0, 10.0));
                match rng.below(8) {
                    0 => c.config.ratio *= 1.0 + e,
                    1 => c.config.f_cutoff = (c.config.f_cutoff as f64 * (1.0 - e.max(1e-7))) as f32,
                    2 => c.config.window = (c.config.window + 1 + rng.below(5) as u8) % 6,
                    3 | 6 => {
                        // neighbouring rate pair, only if the FFT blocks stay small
                        fn g(a: usize, b: usize) -> usize {
                            if b == 0 {
                                a
                            } else {
                                g(b, a % b)
                            }
                        }
                        // chunk a multiple of the input rate: both neighbours then resolve to the same input block
                        if rng.chance(0.5) {
                            c.config.chunk = c.config.rate_in.clamp(1, 2048);
                            c.config.sub_chunks = 1;
                        }
                        let (ri, ro) = (c.config.rate_in, c.config.rate_out + 1);
                        let d = g(ri, ro);
                        if ri / d <= 200 && ro / d <= 200 {
                            c.config.rate_out = ro;
                        } else {
                            // small neighbouring pairs instead: 480->440 vs 480->441 style
                            let base = *rng.pick(&[(480usize, 440usize), (441, 480), (160, 147), (300, 200)]);
                            if c.config.rate_in == base.0 && c.config.rate_out == base.1 {
                                c.config.rate_out += 1;
                            } else {
                                c.config.rate_in = base.0;
                                c.config.rate_out = base.1;
                            }
                            let d2 = g(c.config.rate_in, c.config.rate_out);
                            if c.config.rate_in / d2 > 500 || c.config.rate_out / d2 > 500 {
                                c.config.rate_out = base.1;
                            }
                        }
                    }
                    4 => c.config.interp = (c.config.interp + 1 + rng.below(3) as u8) % 4,
                    5 => c.config.f32 = !c.config.f32,
                    _ => c.config.oversampling = (c.config.oversampling + 1).min(2048),
                }
                if c.config.oversampling == 1 && c.config.interp >= 2 {
                    c.config.interp = 1;
                }
            }
            if rng.chance(0.3) {
                c.born = rng.usize_in(1, 40) as u32;
            }
            instances.push(c);
            continue;
        }
        let mut cfg = gen_config(&mut rng, &dom);
        if cfg.kind.is_fft() && rng.chance(0.5) {
            // same FFT sizes across instances: shared planner cache entries
            cfg.rate_in = 44100;
            cfg.rate_out = 48000;
            cfg.chunk = *rng.pick(&[147usize, 294, 441]);
        }
        let n = ops_budget(&cfg, per, 3, if tier == Tier::Quick { 16 } else { 40 }, &mut rng);
        let mix = OpMix::swarm(&mut rng, n);
        let (_, ops, _) = gen_history(&mut rng, &cfg, &mix);
        let signal = if rng.chance(0.15) { gen_tiny(&mut rng) } else { gen_signal(&mut rng) };
        let born = if rng.chance(0.2) { rng.usize_in(1, 40) as u32 } else { 0 };
        instances.push(InstanceSpec { config: cfg, signal, ops, home: rng.below(threads as u64) as u8, born });
    }
    let total: usize = instances.iter().map(|i| i.ops.len()).sum();
    let p_mig = if rng.chance(0.2) { 0.0 } else { rng.uniform(0.05, 0.6) };
    let mut schedule = Vec::with_capacity(total);
    // a fifth of the scenarios: some calls are issued from a destructor while the caller's thread unwinds
    let p_unw = if rng.chance(0.2) { rng.uniform(0.02, 0.3) } else { 0.0 };
    for _ in 0..total {
        let slot = rng.below(256) as u8;
        let mig: i8 = if rng.chance(p_mig) { rng.below(threads as u64) as i8 } else { -1 };
        let flags: u8 = if p_unw > 0.0 && rng.chance(p_unw) { 1 } else { 0 };
        schedule.push((flags, slot, mig));
    }
    let mut ctor_faults = Vec::new();
    if rng.chance(0.4) {
        for _ in 0..rng.usize_in(1, 4) {
            let kind = if rng.chance(0.5) { rng.below(4) as u8 } else { 4 + rng.below(200) as u8 };
            ctor_faults.push((rng.usize_in(0, total.max(1)) as u32, rng.below(threads as u64) as u8, kind));
        }
    }
    // caller threads with small (valid) stacks: an audio callback thread rarely has the 2 MiB of std's default
    let mut stacks_kb: Vec<u16> = Vec::new();
    if rng.chance(0.3) {
        for _ in 0..threads {
            stacks_kb.push(*rng.pick(&[0u16, 0, 256, 192, 128]));
        }
    }
    let first = instances[0].clone();
    Scenario {
        property: "C18".into(),
        seed,
        profile: "baton-scheduler".into(),
        config: first.config,
        signal: first.signal,
        ops: vec![],
        twin: Twin::Threads { threads, instances, schedule, ctor_faults, stacks_kb },
        sim_seconds: 0.0,
        repeat: 0,
    }
}

enum Cmd {
    Construct(usize, Box<InstanceSpec>),
    /// (instance, op index, op, issue the call from a destructor while the thread unwinds)
    Step(usize, usize, Box<Op>, bool),
    Give(usize, usize),
    Take(usize, Box<AnyRunner>),
    Finish(usize),
    FailCtor(u8),
    Quit,
}

enum Reply {
    Done,
    Gave(usize, Box<AnyRunner>),
    Trace(usize, Box<Trace>),
    ConstructErr(usize, String),
}

fn worker_loop(rx: Receiver<Cmd>, tx: Sender<Reply>) {
    crate::exec::LAST_PANIC.with(|p| p.borrow_mut().clear());
    let mut mine: Vec<(usize, AnyRunner)> = Vec::new();
    while let Ok(cmd) = rx.recv() {
        match cmd {
            Cmd::Construct(id, spec) => match AnyRunner::new(&spec.config, &spec.signal) {
                Ok(r) => {
                    mine.push((id, r));
                    let _ = tx.send(Reply::Done);
                }
                Err(e) => {
                    let _ = tx.send(Reply::ConstructErr(id, e));
                }
            },
            Cmd::Step(id, i, op, unwinding) => {
                if let Some((_, r)) = mine.iter_mut().find(|(k, _)| *k == id) {
                    if unwinding {
                        // the caller issues this call from a destructor that runs while its thread unwinds
                        // (`std::thread::panicking()` is true for the whole call); the unwind is caught right after
                        struct OnDrop<'a> {
                            r: &'a mut AnyRunner,
                            i: usize,
                            op: &'a Op,
                        }
                        impl Drop for OnDrop<'_> {
                            fn drop(&mut self) {
                                self.r.step(self.i, self.op);
                            }
                        }
                        let _ = std::panic::catch_unwind(std::panic::AssertUnwindSafe(|| {
                            let _g = OnDrop { r, i, op: &op };
                            std::panic::resume_unwind(Box::new("caller unwinds (injected)"));
                        }));
                    } else {
                        r.step(i, &op);
                    }
                }
                let _ = tx.send(Reply::Done);
            }
            Cmd::Give(id, _to) => {
                if let Some(pos) = mine.iter().position(|(k, _)| *k == id) {
                    let (_, r) = mine.remove(pos);
                    let _ = tx.send(Reply::Gave(id, Box::new(r)));
                } else {
                    let _ = tx.send(Reply::Done);
                }
            }
            Cmd::Take(id, r) => {
                mine.push((id, *r));
                let _ = tx.send(Reply::Done);
            }
            Cmd::Finish(id) => {
                if let Some(pos) = mine.iter().position(|(k, _)| *k == id) {
                    let (_, r) = mine.remove(pos);
                    let _ = tx.send(Reply::Trace(id, Box::new(r.finish())));
                } else {
                    let _ = tx.send(Reply::Done);
                }
            }
            Cmd::FailCtor(kind) => {
                // a constructor call that fails (documented Err, or capacity-overflow panic for absurd sizes)
                if kind >= 4 {
                    // a foreign call on this thread whose user buffer accessor unwinds
                    if kind % 2 == 0 {
                        crate::exec::foreign_unwind::<f32>(kind as u32);
                    } else {
                        crate::exec::foreign_unwind::<f64>(kind as u32);
                    }
                    let _ = tx.send(Reply::Done);
                    continue;
                }
                let r = std::panic::catch_unwind(|| match kind {
                    0 => rubato::FftFixedIn::<f64>::new((1usize << 61) + 1, 1, 1024, 1, 1).is_ok(),
                    1 => rubato::FastFixedIn::<f32>::new(-1.0, 1.0, rubato::PolynomialDegree::Cubic, 64, 1).is_ok(),
                    2 => rubato::FftFixedOut::<f32>::new(0, 44100, 64, 1, 1).is_ok(),
                    _ => rubato::FftFixedInOut::<f64>::new(1, (1usize << 61) + 1, 1024, 1).is_ok(),
                });
                let _ = r;
                let _ = tx.send(Reply::Done);
            }
            Cmd::Quit => break,
        }
    }
}

/// Solo reference of instance `k` of the scenario in `file`, printed as step lines (child process entry).
pub fn solo_main(file: &str, k: usize) {
    let txt = std::fs::read_to_string(file).expect("read scenario");
    let sc: Scenario = serde_json::from_str(&txt).expect("parse");
    if let Twin::Threads { instances, .. } = &sc.twin {
        let spec = &instances[k];
        let t = run_cfg(&spec.config, &spec.signal, &spec.ops, RunOpts { keep_output: false, ..Default::default() });
        for l in step_lines(&t) {
            println!("S {}", l);
        }
        println!("SOLO-END");
    }
}

fn solo_reference(file: &std::path::Path, k: usize) -> Result<Vec<String>, String> {
    let exe = std::env::current_exe().unwrap();
    let outp = Command::new(exe).arg("solo").arg(file).arg(k.to_string()).stdout(Stdio::piped()).stderr(Stdio::null()).output().map_err(|e| e.to_string())?;
    let txt = String::from_utf8_lossy(&outp.stdout).to_string();
    if !txt.contains("SOLO-END") {
        return Err(format!("solo reference process for instance {} died: {:?}", k, outp.status));
    }
    Ok(txt.lines().filter_map(|l| l.strip_prefix("S ").map(|s| s.to_string())).collect())
}

pub fn eval_c18(sc: &Scenario) -> Outcome {
    let mut out = Outcome::default();
    let (threads, instances, schedule, ctor_faults) = match &sc.twin {
        Twin::Threads { threads, instances, schedule, ctor_faults, .. } => (*threads as usize, instances.clone(), schedule.clone(), ctor_faults.clone()),
        _ => return out,
    };
    let stacks_kb: Vec<u16> = match &sc.twin {
        Twin::Threads { stacks_kb, .. } => stacks_kb.clone(),
        _ => vec![],
    };
    let mut small_stacks = 0u64;
    let k = threads.max(1);
    // spawn the caller threads
    let mut txs: Vec<Sender<Cmd>> = Vec::new();
    let mut rxs: Vec<Receiver<Reply>> = Vec::new();
    let mut handles = Vec::new();
    for _ in 0..k {
        let (ctx, crx) = channel::<Cmd>();
        let (rtx, rrx) = channel::<Reply>();
        let kb: usize = std::env::var("RSIM_STACK_KB").ok().and_then(|s| s.parse().ok()).unwrap_or_else(|| stacks_kb.get(handles.len()).copied().unwrap_or(0) as usize);
        if kb > 0 {
            small_stacks += 1;
            handles.push(std::thread::Builder::new().stack_size(kb * 1024).spawn(move || worker_loop(crx, rtx)).expect("spawn"));
        } else {
            handles.push(std::thread::spawn(move || worker_loop(crx, rtx)));
        }
        txs.push(ctx);
        rxs.push(rrx);
    }
    let mut owner: Vec<usize> = instances.iter().map(|i| i.home as usize % k).collect();
    let mut next_op: Vec<usize> = vec![0; instances.len()];
    let mut alive: Vec<bool> = vec![true; instances.len()];
    let mut construct_err: Vec<Option<String>> = vec![None; instances.len()];
    // construction, each on its home thread, one at a time; instances with born > 0 are constructed later,
    // while the others are in the middle of their histories
    let mut constructed: Vec<bool> = vec![false; instances.len()];
    let homes: Vec<usize> = owner.clone();
    let construct = |id: usize, alive: &mut Vec<bool>, construct_err: &mut Vec<Option<String>>, constructed: &mut Vec<bool>| {
        constructed[id] = true;
        let _ = txs[homes[id]].send(Cmd::Construct(id, Box::new(instances[id].clone())));
        match rxs[homes[id]].recv() {
            Ok(Reply::ConstructErr(_, e)) => {
                alive[id] = false;
                construct_err[id] = Some(e);
            }
            Ok(_) => {}
            Err(_) => {
                alive[id] = false;
            }
        }
    };
    for id in 0..instances.len() {
        if instances[id].born == 0 {
            construct(id, &mut alive, &mut construct_err, &mut constructed);
        }
    }
    let mut late = 0u64;
    let mut faults_fired = 0u64;
    let mut unwinds_fired = 0u64;
    let mut calls_while_unwinding = 0u64;
    let mut migrations = 0u64;
    let mut steps = 0u64;
    let mut thread_switches = 0u64;
    let mut last_thread = usize::MAX;
    for (flags, slot, mig) in schedule.iter() {
        for id in 0..instances.len() {
            if !constructed[id] && (instances[id].born as u64) <= steps {
                construct(id, &mut alive, &mut construct_err, &mut constructed);
                late += 1;
            }
        }
        for (at, th, kind) in ctor_faults.iter() {
            if *at as u64 == steps {
                let t = *th as usize % k;
                let _ = txs[t].send(Cmd::FailCtor(*kind));
                let _ = rxs[t].recv();
                if *kind >= 4 {
                    unwinds_fired += 1;
                } else {
                    faults_fired += 1;
                }
            }
        }
        let remaining: Vec<usize> = (0..instances.len()).filter(|i| constructed[*i] && alive[*i] && next_op[*i] < instances[*i].ops.len()).collect();
        if remaining.is_empty() {
            if constructed.iter().all(|c| *c) {
                break;
            }
            steps += 1;
            continue;
        }
        let id = remaining[*slot as usize % remaining.len()];
        let th = owner[id];
        if th != last_thread {
            thread_switches += 1;
            last_thread = th;
        }
        let op = instances[id].ops[next_op[id]].clone();
        let unwinding = *flags & 1 != 0;
        if unwinding {
            calls_while_unwinding += 1;
        }
        let _ = txs[th].send(Cmd::Step(id, next_op[id], Box::new(op), unwinding));
        if rxs[th].recv().is_err() {
            out.push("C18", "call-did-not-complete", next_op[id], format!("caller thread {} died while instance {} ran op {}", th, id, next_op[id]));
            break;
        }
        next_op[id] += 1;
        steps += 1;
        if *mig >= 0 {
            let to = *mig as usize % k;
            if to != th {
                let _ = txs[th].send(Cmd::Give(id, to));
                if let Ok(Reply::Gave(_, r)) = rxs[th].recv() {
                    let _ = txs[to].send(Cmd::Take(id, r));
                    let _ = rxs[to].recv();
                    owner[id] = to;
                    migrations += 1;
                }
            }
        }
    }
    for id in 0..instances.len() {
        if !constructed[id] {
            construct(id, &mut alive, &mut construct_err, &mut constructed);
            late += 1;
        }
    }
    out.cov.fault("F10_late_constructions", late);
    out.cov.fault("F3_failing_constructor_calls", faults_fired);
    out.cov.fault("F8_foreign_call_unwinding_in_user_buffer", unwinds_fired);
    out.cov.fault("F10_caller_threads_with_small_stack", small_stacks);
    out.cov.fault("F10_calls_issued_while_the_thread_unwinds", calls_while_unwinding);
    // collect traces
    let mut traces: Vec<Option<Trace>> = (0..instances.len()).map(|_| None).collect();
    for id in 0..instances.len() {
        if construct_err[id].is_some() {
            let mut t = Trace::default();
            t.construct_err = construct_err[id].clone();
            traces[id] = Some(t);
            continue;
        }
        let th = owner[id];
        let _ = txs[th].send(Cmd::Finish(id));
        if let Ok(Reply::Trace(_, t)) = rxs[th].recv() {
            traces[id] = Some(*t);
        }
    }
    for tx in &txs {
        let _ = tx.send(Cmd::Quit);
    }
    for h in handles {
        let _ = h.join();
    }
    out.cov.fault("F10_scheduled_steps", steps);
    out.cov.fault("F10_migrations", migrations);
    out.cov.probe("thread_switches", thread_switches);
    out.cov.probe("caller_threads", k as u64);
    out.cov.probe("instances", instances.len() as u64);
    // solo references: one fresh process per instance
    let dir = crate::sup::verif_root().join("replays").join("tmp");
    let _ = std::fs::create_dir_all(&dir);
    let file = dir.join(format!("solo-{}-{}.json", std::process::id(), sc.seed));
    std::fs::write(&file, serde_json::to_string(sc).unwrap()).unwrap();
    for (id, spec) in instances.iter().enumerate() {
        let t = match &traces[id] {
            Some(t) => t,
            None => continue,
        };
        absorb(&mut out, "C18", &spec.config, &spec.ops, t, &[]);
        let got = step_lines(t);
        match solo_reference(&file, id) {
            Err(e) => {
                out.push("C18", "call-did-not-complete", 0, e);
            }
            Ok(refl) => {
                // the scheduled instance may have executed fewer ops than the reference if the schedule ended early
                let n = got.len().min(refl.len());
                for j in 0..n {
                    if got[j] != refl[j] {
                        out.push(
                            "C18",
                            "differs-from-solo-reference",
                            j.saturating_sub(1),
                            format!("instance {} ({} {}), step line {}: scheduled among {} instances on {} threads [{}] vs alone in a fresh process [{}]", id, spec.config.kind.name(), if spec.config.f32 { "f32" } else { "f64" }, j, instances.len(), k, got[j], refl[j]),
                        );
                        break;
                    }
                }
                out.cov.probe("instances_compared_to_solo", 1);
            }
        }
        if out.viol.len() > 3 {
            break;
        }
    }
    let _ = std::fs::remove_file(&file);
    // identical specs must agree with each other too
    for a in 0..instances.len() {
        for b in a + 1..instances.len() {
            if instances[a].config == instances[b].config && instances[a].signal == instances[b].signal && instances[a].ops == instances[b].ops {
                if let (Some(ta), Some(tb)) = (&traces[a], &traces[b]) {
                    let (la, lb) = (step_lines(ta), step_lines(tb));
                    let n = la.len().min(lb.len());
                    if la[..n] != lb[..n] {
                        out.push("C18", "identical-instances-disagree", 0, format!("instances {} and {} have identical constructor arguments and call histories but different results", a, b));
                    }
                    out.cov.probe("identical_pairs_compared", 1);
                }
            }
        }
    }
    out.cov.calls = out.cov.calls.max(steps);
    out
}
