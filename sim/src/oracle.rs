//! Property drivers: generate(property, seed) -> Scenario, evaluate(Scenario) -> Outcome.

use crate::exec::*;
use crate::gen::*;
use crate::rng::{mix, Rng};
use crate::scenario::*;
use serde::{Deserialize, Serialize};
use std::collections::BTreeMap;

pub const CLAIMED: [&str; 14] = ["C03", "C04", "C05", "C06", "C07", "C09", "C10", "C11", "C12", "C13", "C15", "C16", "C17", "C18"];

#[derive(Debug, Clone, Default, Serialize, Deserialize)]
pub struct Cover {
    pub ops: u64,
    pub calls: u64,
    pub executions: u64,
    pub frames_in: u64,
    pub frames_out: u64,
    pub faults: BTreeMap<String, u64>,
    pub probes: BTreeMap<String, u64>,
    pub shape: u64,
    pub nontrivial: bool,
    pub trans: Vec<u64>,
    pub sim_seconds: f64,
    pub kind: String,
    pub profile: String,
}

impl Cover {
    pub fn fault(&mut self, k: &str, n: u64) {
        if n > 0 {
            *self.faults.entry(k.to_string()).or_insert(0) += n;
        }
    }
    pub fn probe(&mut self, k: &str, n: u64) {
        if n > 0 {
            *self.probes.entry(k.to_string()).or_insert(0) += n;
        }
    }
}

#[derive(Debug, Clone, Serialize, Deserialize)]
pub struct V {
    pub prop: String,
    pub clause: String,
    pub step: usize,
    pub detail: String,
}

#[derive(Debug, Clone, Default, Serialize, Deserialize)]
pub struct Outcome {
    pub viol: Vec<V>,
    pub digest: u64,
    pub cov: Cover,
}

impl Outcome {
    pub fn push(&mut self, prop: &str, clause: &str, step: usize, detail: String) {
        if self.viol.len() < 32 {
            self.viol.push(V { prop: prop.to_string(), clause: clause.to_string(), step, detail });
        }
    }
}

fn fold(h: &mut u64, x: u64) {
    *h = mix(*h ^ x);
}

/// Fold a trace into the outcome: coverage, digest and the executor-level violations that
/// are relevant for `prop` (its own clauses plus "the call did not complete").
pub fn absorb(out: &mut Outcome, prop: &str, sc_cfg: &Config, ops: &[Op], t: &Trace, own: &[&str]) {
    fold(&mut out.digest, t.digest);
    out.cov.executions += 1;
    out.cov.ops += t.steps.len() as u64;
    out.cov.frames_in += t.consumed;
    out.cov.frames_out += t.total_out;
    if let Some(e) = &t.construct_err {
        out.push(prop, "call-did-not-complete", 0, format!("construction failed for a valid configuration: {}", e));
        return;
    }
    for v in &t.viol {
        if own.contains(&v.prop) {
            out.push(prop, &v.clause, v.step, v.detail.clone());
        } else if v.prop == "C03" && (v.clause == "panic" || v.clause == "valid-call-returned-err" || v.clause == "valid-setter-refused") {
            out.push(prop, "call-did-not-complete", v.step, format!("{}: {}", v.clause, v.detail));
        }
    }
    // coverage
    let cfg = sc_cfg;
    let mut prev_code = 255u8;
    let mut ramp_pending = false;
    let mut rel = 1.0f64;
    let mut first = true;
    let mut last_chunk = cfg.chunk;
    for s in &t.steps {
        let op = &ops[s.op.min(ops.len().saturating_sub(1))];
        match (&s.res, op) {
            (StepRes::Proc { n_out, .. }, Op::Process { path, valid, slack_in, slack_out, slices, ragged, .. }) => {
                if *ragged != 0 {
                    out.cov.fault("F11_ragged_channel_lengths", 1);
                }
                out.cov.calls += 1;
                if valid.is_some() {
                    out.cov.fault("F2_eof_partial", 1);
                    if *valid == Some(0) {
                        out.cov.probe("flush_none", 1);
                    }
                }
                if *slack_in > 0 || *slack_out > 0 || *slices || *path != Path::IntoBuffer {
                    out.cov.fault("F11_slack_container_path", 1);
                }
                if cfg.mask.is_some() {
                    out.cov.fault("F7_masked_call", 1);
                }
                if s.rt {
                    out.cov.fault("F8_heap_armed_call", 1);
                }
                if first {
                    out.cov.probe("first_call_after_construction_or_reset", 1);
                }
                if s.pre.in_next == 0 {
                    out.cov.probe("needed_input_zero", 1);
                }
                if *n_out == 0 {
                    out.cov.probe("zero_frames_out", 1);
                }
                if ramp_pending {
                    out.cov.probe("ramped_call", 1);
                }
                if s.pre.in_next == s.pre.in_max {
                    out.cov.probe("in_next_at_max", 1);
                }
                if s.pre.out_next == s.pre.out_max {
                    out.cov.probe("out_next_at_max", 1);
                }
                ramp_pending = false;
                first = false;
            }
            (StepRes::CtlOk, Op::SetRatio { rel: r, ramp, .. }) => {
                out.cov.fault(if *ramp { "F6_ratio_ramp" } else { "F6_ratio_step" }, 1);
                if (*r - cfg.max_rel).abs() < 1e-12 && cfg.max_rel > 1.0 {
                    out.cov.probe("ratio_at_upper_bound", 1);
                }
                if (*r - 1.0 / cfg.max_rel).abs() < 1e-12 && cfg.max_rel > 1.0 {
                    out.cov.probe("ratio_at_lower_bound", 1);
                }
                if ramp_pending {
                    out.cov.probe("setter_while_ramp_pending", 1);
                }
                ramp_pending = *ramp && *r != rel;
                rel = *r;
            }
            (StepRes::CtlOk, Op::SetChunk { n }) => {
                out.cov.fault("F1_chunk_change", 1);
                let n = (*n).clamp(1, cfg.chunk);
                if n == 1 && last_chunk == cfg.chunk {
                    out.cov.probe("chunk_1_after_max", 1);
                }
                last_chunk = n;
            }
            (StepRes::Reset, _) => {
                out.cov.fault("F5_reset", 1);
                if ramp_pending {
                    out.cov.probe("ramp_pending_at_reset", 1);
                }
                ramp_pending = false;
                rel = 1.0;
                first = true;
                last_chunk = cfg.chunk;
            }
            (_, Op::Bad { call: crate::scenario::BadCall::ForeignUnwind { .. }, .. }) => out.cov.fault("F8_foreign_call_unwinding_in_user_buffer", 1),
            (_, Op::Bad { .. }) => {
                out.cov.fault("F3_malformed_call", 1);
                if s.rt {
                    out.cov.fault("F8_heap_armed_call", 1);
                }
            }
            (_, Op::SetMask { .. }) => out.cov.fault("F7_mask_change", 1),
            (_, Op::BadRatio { .. }) | (_, Op::BadChunk { .. }) => out.cov.fault("F4_boundary_control", 1),
            _ => {}
        }
        // abstract transition
        let lb = ((rel.log2() * 4.0).floor() as i64 + 64) as u64;
        let cb = (8 * last_chunk / cfg.chunk.max(1)) as u64;
        let tr = mix((cfg.kind as u64) | ((cfg.f32 as u64) << 4) | (lb << 8) | ((ramp_pending as u64) << 20) | (cb << 24) | ((first as u64) << 30) | ((prev_code as u64) << 32) | ((s.code as u64) << 40) | ((cfg.interp as u64 % 4) << 48) | ((cfg.degree as u64 % 5) << 52));
        out.cov.trans.push(tr);
        prev_code = s.code;
    }
    out.cov.trans.sort_unstable();
    out.cov.trans.dedup();
}

pub fn shape_of(sc: &Scenario) -> u64 {
    let mut h = mix(sc.config.kind as u64 ^ ((sc.config.f32 as u64) << 8) ^ ((sc.config.channels as u64) << 16));
    for op in &sc.ops {
        fold(&mut h, op.kind_code() as u64);
    }
    match &sc.twin {
        Twin::Threads { threads, instances, schedule, .. } => {
            fold(&mut h, *threads as u64);
            for i in instances {
                fold(&mut h, i.config.kind as u64 ^ ((i.home as u64) << 8) ^ ((i.ops.len() as u64) << 16));
                for op in &i.ops {
                    fold(&mut h, op.kind_code() as u64);
                }
            }
            for s in schedule {
                fold(&mut h, s.1 as u64 ^ ((s.2 as u8 as u64) << 8));
            }
        }
        Twin::Chunking { config_b, frames, setchunk_a, setchunk_b, steps } => {
            fold(&mut h, config_b.kind as u64 ^ ((config_b.chunk as u64) << 8) ^ ((sc.config.chunk as u64) << 32));
            fold(&mut h, *frames);
            fold(&mut h, (setchunk_a.len() as u64) ^ ((setchunk_b.len() as u64) << 16) ^ ((steps.len() as u64) << 32));
        }
        _ => {}
    }
    h
}

// ---------------------------------------------------------------------------------------
// generation
// ---------------------------------------------------------------------------------------

pub fn tier_budget(tier: Tier) -> f64 {
    match tier {
        Tier::Quick => 6.0e6,
        Tier::Thorough => 1.2e7,
    }
}

fn base_scenario(prop: &str, seed: u64) -> (Rng, Scenario) {
    let rng = Rng::new(seed);
    let sc = Scenario {
        property: prop.to_string(),
        seed,
        profile: String::new(),
        config: Config {
            kind: Kind::FastIn,
            f32: false,
            ratio: 1.0,
            rate_in: 1,
            rate_out: 1,
            max_rel: 1.0,
            chunk: 1,
            sub_chunks: 1,
            channels: 1,
            sinc_len: 8,
            oversampling: 1,
            interp: 0,
            window: 0,
            f_cutoff: 0.95,
            degree: 0,
            kernel: Kernel::Auto,
            cpu_mask: 0,
            mask: None,
            empty_inactive: false,
        },
        signal: Signal::Index,
        ops: vec![],
        twin: Twin::None,
        sim_seconds: 0.0,
        repeat: 0,
    };
    (rng, sc)
}

/// C03 / C04 / C09 share the "any valid history" workload.
fn gen_valid_history(prop: &str, seed: u64, tier: Tier) -> Scenario {
    let (mut rng, mut sc) = base_scenario(prop, seed);
    let mut dom = Dom { custom_kernels: true, zero_channels: true, wild: true, zero_len: true, ..Dom::default() };
    // swarm: a few percent of the runs leave the usual size range (large chunk, many channels) or run long
    let big = rng.chance(0.03);
    let long = !big && rng.chance(0.04);
    if big {
        dom.max_chunk = 65_536;
        dom.max_channels = 8;
    }
    if long {
        dom.max_chunk = 64;
        dom.max_sinc_len = 32;
        dom.max_channels = 2;
    }
    // marathon: thousands of cheap calls on one instance, one kind of op dominating (state that accumulates per
    // call, per control call or per reset: counters, logs, rings, generation numbers)
    let marathon = !big && !long && rng.chance(0.01);
    if marathon {
        dom.max_chunk = 16;
        dom.max_sinc_len = 16;
        dom.max_oversampling = 16;
        dom.max_channels = 2;
        dom.fft_cap = 40;
        dom.wild = false;
    }
    sc.config = gen_config(&mut rng, &dom);
    if big && rng.chance(0.5) {
        sc.config.chunk = rng.log_usize(4097, 65_536);
        sc.config.sub_chunks = *rng.pick(&[1usize, 2, 8, 64]);
    }
    if big && rng.chance(0.3) {
        sc.config.channels = rng.usize_in(9, 24);
        if let Some(m) = &mut sc.config.mask {
            m.resize(sc.config.channels, true);
        }
    }
    sanitize(&mut sc.config);
    sc.signal = gen_signal(&mut rng);
    if sc.config.channels >= 1 && rng.chance(0.02) {
        // no panic whatever the sample values: one channel carries +-MAX, infinities and NaNs
        sc.signal = Signal::Extreme { seed: rng.next(), last_ch: sc.config.channels - 1 };
    }
    // directed extremes for the asynchronous kinds (exact-integer largest step, lowest ratio then highest)
    let p_dir = std::env::var("RSIM_DIRECTED_P").ok().and_then(|s| s.parse::<f64>().ok()).unwrap_or(0.04);
    if sc.config.kind.is_async() && rng.chance(p_dir) {
        let (cfg, ops) = gen_extreme_directed(&mut rng, sc.config.kind);
        sc.config = cfg;
        sc.ops = ops;
        sc.profile = "extremes-directed".into();
        return sc;
    }
    // frame counts above 2^24 (f32 no longer exact): about 20 runs per quick batch, a few hundred per thorough one
    let p_huge = std::env::var("RSIM_HUGE_P").ok().and_then(|s| s.parse::<f64>().ok()).unwrap_or(if tier == Tier::Quick { 4.0e-4 } else { 2.5e-4 });
    if rng.chance(p_huge) {
        sc.config = gen_huge_config(&mut rng);
        sc.signal = Signal::Const { v: 0.25 };
        // a deliberate short history: calls, a ratio drop to the lower bound (async) or a reset in between
        let mut ops = vec![Op::process()];
        if sc.config.kind.is_async() && sc.config.max_rel > 1.0 {
            ops.push(Op::SetRatio { rel: 1.0 / sc.config.max_rel, ramp: rng.chance(0.5), relative_api: rng.chance(0.5) });
            ops.push(Op::process());
        }
        if rng.chance(0.5) {
            ops.push(Op::Reset);
        }
        ops.push(Op::process());
        if rng.chance(0.4) {
            ops.push(Op::process());
        }
        sc.ops = ops;
        sc.profile = "huge-frame-counts".into();
        return sc;
    }
    if marathon {
        let n = rng.log_usize(1100, if tier == Tier::Quick { 70_000 } else { 300_000 });
        let c = call_cost(&sc.config, sc.config.max_rel).max(call_cost(&sc.config, 1.0 / sc.config.max_rel)).max(1.0);
        let n = n.min((3.0e8 / c) as usize).max(1100);
        let mut m = OpMix::swarm(&mut rng, n);
        m.p_slack = 0.0;
        if rng.chance(0.8) {
            m.w_reset = 0.0;
        }
        match rng.below(6) {
            0 => {
                m.w_ratio = 1.5;
                m.p_ramp = 1.0;
            }
            1 => m.w_ratio = 2.0,
            2 => m.w_partial = 1.0,
            3 => m.w_chunk = 1.0,
            4 => m.w_reset = 3.0,
            _ => {}
        }
        let ops = if rng.chance(0.7) { gen_ops_uniform(&mut rng, &sc.config, &m) } else { gen_ops_ratematch(&mut rng, &sc.config, &m).0 };
        sc.ops = ops;
        sc.profile = "marathon".into();
        return sc;
    }
    if rng.chance(0.003) {
        // big FFT blocks: large, nearly coprime rates (plans with large prime factors, blocks beyond 2^17 frames);
        // a chunk of one or two blocks so that every call transforms
        let pairs = [(10007usize, 8000usize), (8000, 10007), (177147, 262144), (262144, 177147), (65537, 65536), (100003, 100000), (48000, 44101), (96000, 88211)];
        let (ri, ro) = if rng.chance(0.6) {
            *rng.pick(&pairs)
        } else {
            let a = rng.usize_in(8000, 300_000);
            let b = if rng.chance(0.5) { a + rng.usize_in(1, 9) } else { rng.usize_in(8000, 300_000) };
            (a, b)
        };
        fn g(a: usize, b: usize) -> usize {
            if b == 0 {
                a
            } else {
                g(b, a % b)
            }
        }
        let d = g(ri, ro);
        let kind = *rng.pick(&[Kind::FftIn, Kind::FftOut, Kind::FftInOut]);
        let blk = if kind == Kind::FftOut { ro / d } else { ri / d };
        sc.config.kind = kind;
        sc.config.rate_in = ri;
        sc.config.rate_out = ro;
        sc.config.chunk = blk * rng.usize_in(1, 2);
        sc.config.sub_chunks = 1;
        sc.config.channels = rng.usize_in(1, 2);
        sc.config.mask = None;
        sc.config.kernel = Kernel::Auto;
        sc.signal = Signal::Noise { seed: rng.next() };
        let mut ops = Vec::new();
        for _ in 0..rng.usize_in(2, 4) {
            ops.push(Op::process());
        }
        if rng.chance(0.4) {
            ops.push(Op::Reset);
            ops.push(Op::process());
        }
        sc.ops = ops;
        sc.profile = "big-fft-blocks".into();
        return sc;
    }
    let hi = if long { if tier == Tier::Quick { 1500 } else { 4000 } } else if tier == Tier::Quick { 60 } else { 200 };
    let budget = tier_budget(tier) * if long || big { 4.0 } else { 1.0 };
    let n = ops_budget(&sc.config, budget, 8, hi, &mut rng);
    let mix_ = OpMix::swarm(&mut rng, n);
    let (p, mut ops, t) = gen_history(&mut rng, &sc.config, &mix_);
    // a third of the runs: the caller changes its mask mid-stream; C09 also sees rejected calls
    // (a malformed process_into_buffer call is still a real-time call)
    if sc.config.channels > 0 && rng.chance(0.33) {
        let p_mask = rng.uniform(0.02, 0.2);
        let p_bad = if prop == "C09" { rng.uniform(0.0, 0.15) } else { 0.0 };
        sprinkle(&mut rng, &sc.config, &mut ops, p_mask, p_bad);
    }
    sc.profile = p;
    sc.ops = ops;
    sc.sim_seconds = t;
    sc
}

/// Ultra-long cheap streams (tens of millions of frames) at a ratio a hair off a rational / off the oversampling
/// grid, optionally after a sub-ppm ratio trim: slow drifts need that many frames to leave the fixed bound.
fn gen_c07_ultra(seed: u64, tier: Tier) -> Scenario {
    let (mut rng, mut sc) = base_scenario("C07", seed);
    let kind = *rng.pick(&[Kind::FastIn, Kind::FastOut, Kind::SincIn, Kind::SincOut]);
    let os = *rng.pick(&[1usize, 2, 3, 4, 8]);
    let (num, den) = (rng.usize_in(1, 8), rng.usize_in(1, 8));
    let e = 10f64.powf(-rng.uniform(6.0, 7.5)) * if rng.chance(0.5) { 1.0 } else { -1.0 };
    // for sinc kinds: 1/ratio near a multiple of the grid step 1/os
    let base = if kind.is_sinc() { os as f64 / rng.usize_in(1, 4 * os) as f64 } else { num as f64 / den as f64 };
    let ratio = (base.clamp(0.125, 8.0)) * (1.0 + e);
    sc.config = Config {
        kind,
        f32: rng.chance(0.3),
        ratio,
        rate_in: 1,
        rate_out: 1,
        max_rel: *rng.pick(&[1.0, 1.001, 1.1]),
        chunk: *rng.pick(&[4096usize, 1024, 2048]),
        sub_chunks: 1,
        channels: 1,
        sinc_len: 8,
        oversampling: os,
        interp: if rng.chance(0.5) { 0 } else { rng.below(4) as u8 },
        window: 0,
        f_cutoff: 0.95,
        degree: rng.below(5) as u8,
        kernel: if kind.is_sinc() { Kernel::Probe } else { Kernel::Auto },
        cpu_mask: 0,
        mask: None,
        empty_inactive: false,
    };
    if sc.config.oversampling == 1 && sc.config.interp >= 2 {
        sc.config.interp = 1;
    }
    sc.signal = Signal::Const { v: 0.5 };
    // a relative rate error of 2^-25 (a ratio kept in single precision somewhere) needs (L + 3 + 4/r) * 2^25 input
    // frames to leave the bound: 4e8 .. 2.5e9; the polynomial kinds are cheap enough for that at the thorough tier
    let frames: f64 = if tier == Tier::Quick {
        3.0e7
    } else if kind.is_sinc() {
        4.0e8
    } else {
        2.5e9
    };
    let per_call = match kind {
        Kind::FastIn | Kind::SincIn => (sc.config.chunk as f64).max(sc.config.chunk as f64 * ratio),
        _ => (sc.config.chunk as f64 / ratio).max(sc.config.chunk as f64),
    };
    let n = (frames / per_call.max(1.0)) as usize;
    let mut ops = Vec::with_capacity(n + 2);
    if sc.config.max_rel > 1.0 && rng.chance(0.6) {
        // a trim far below a percent, ramped or not
        let d = 10f64.powf(-rng.uniform(6.0, 7.5)) * if rng.chance(0.5) { 1.0 } else { -1.0 };
        ops.push(Op::SetRatio { rel: 1.0 + d, ramp: rng.chance(0.6), relative_api: rng.chance(0.5) });
    }
    if rng.chance(0.35) {
        // millions of 1-3 frame chunks: errors made once per call (not per frame) need that many calls
        sc.config.chunk = *rng.pick(&[1usize, 1, 2, 3]);
        ops.push(Op::process());
        sc.repeat = if tier == Tier::Quick { 3_000_000 } else { 30_000_000 };
        sc.ops = ops;
        sc.profile = "ultra-long-tiny-chunks".into();
        return sc;
    }
    ops.push(Op::process());
    sc.repeat = n.saturating_sub(1) as u64;
    sc.ops = ops;
    sc.profile = "ultra-long-near-resonant".into();
    sc
}

fn gen_c07(seed: u64, tier: Tier) -> Scenario {
    let p_ultra = std::env::var("RSIM_ULTRA_P").ok().and_then(|s| s.parse::<f64>().ok()).unwrap_or(if tier == Tier::Quick { 6.4e-4 } else { 2.7e-4 });
    if Rng::new(seed ^ 0xC07).chance(p_ultra) {
        return gen_c07_ultra(seed, tier);
    }
    let (mut rng, mut sc) = base_scenario("C07", seed);
    let mut dom = Dom::default();
    dom.ratio_changes = false;
    dom.masks = false;
    dom.edges = false;
    dom.wild = true;
    // long 1-frame streams: cheap kernels
    let long = rng.chance(0.25);
    if long {
        dom.max_chunk = 4;
        dom.max_channels = 1;
        dom.max_sinc_len = 16;
    }
    sc.config = gen_config(&mut rng, &dom);
    if long {
        sc.config.chunk = *rng.pick(&[1usize, 1, 1, 2, 3]);
        sc.config.sub_chunks = 1;
        if sc.config.kind.is_sinc() {
            sc.config.kernel = Kernel::Probe;
        }
    }
    sc.signal = if sc.config.kernel == Kernel::Probe { Signal::Index } else { gen_signal(&mut rng) };
    let budget = tier_budget(tier) * if long { 3.0 } else { 1.0 };
    let hi = if long { if tier == Tier::Quick { 20_000 } else { 200_000 } } else { 300 };
    let n = ops_budget(&sc.config, budget, 20, hi, &mut rng);
    let mut m = OpMix::swarm(&mut rng, n);
    m.w_ratio = 0.0;
    m.w_reset = 0.0;
    m.w_partial = 0.0;
    m.p_alt_path = 0.0;
    if long {
        m.w_chunk = 0.0;
        m.p_slack = 0.0;
    }
    sc.ops = gen_ops_uniform(&mut rng, &sc.config, &m);
    sc.profile = if long { "long-small-chunks".into() } else { "chunk-schedule".into() };
    // a quarter of the async runs: the stream was used at other ratios before and then reset; the accounting
    // of the constant-ratio stream starts at the reset
    if sc.config.kind.is_async() && !long && rng.chance(0.25) {
        if sc.config.max_rel <= 1.0 {
            sc.config.max_rel = rng.log_uniform(1.05, 4.0);
        }
        let mut pre = Vec::new();
        for _ in 0..rng.usize_in(1, 3) {
            pre.push(Op::SetRatio { rel: gen_rel(&mut rng, &sc.config, true), ramp: rng.chance(0.5), relative_api: rng.chance(0.5) });
            for _ in 0..rng.usize_in(0, 3) {
                pre.push(Op::process());
            }
        }
        pre.push(Op::Reset);
        pre.extend(sc.ops.drain(..));
        sc.ops = pre;
        sc.profile = "used-then-reset+chunk-schedule".into();
    }
    sc
}

pub fn generate(prop: &str, seed: u64, tier: Tier) -> Scenario {
    match prop {
        "C03" | "C04" | "C09" => gen_valid_history(prop, seed, tier),
        "C07" => gen_c07(seed, tier),
        _ => crate::oracle2::generate2(prop, seed, tier),
    }
}

// ---------------------------------------------------------------------------------------
// evaluation
// ---------------------------------------------------------------------------------------

fn eval_single(sc: &Scenario, own: &[&str]) -> (Outcome, Trace) {
    let mut out = Outcome::default();
    let t = run_cfg(&sc.config, &sc.signal, &sc.ops, RunOpts { keep_output: false, ..Default::default() });
    absorb(&mut out, &sc.property, &sc.config, &sc.ops, &t, own);
    (out, t)
}

pub fn fft_blocks(cfg: &Config) -> (u64, u64) {
    fn g(a: u64, b: u64) -> u64 {
        if b == 0 {
            a
        } else {
            g(b, a % b)
        }
    }
    let (ri, ro) = (cfg.rate_in as u64, cfg.rate_out as u64);
    let gcd = g(ri, ro);
    let (min_in, min_out) = (ri / gcd, ro / gcd);
    let k = match cfg.kind {
        Kind::FftInOut => (cfg.chunk as u64 + min_in - 1) / min_in,
        Kind::FftIn => {
            let w = (cfg.chunk / cfg.sub_chunks.max(1)) as u64;
            ((w + min_in - 1) / min_in).max(1)
        }
        _ => {
            let w = (cfg.chunk / cfg.sub_chunks.max(1)) as u64;
            ((w + min_out - 1) / min_out).max(1)
        }
    };
    (k * min_in, k * min_out)
}

/// C07 accounting, one step at a time (shared by the recorded and the streaming evaluation).
struct Acct {
    tin: u64,
    tout: u64,
    r: f64,
    l: f64,
    bound: f64,
    blk_in: u64,
    clean: bool,
    settle: u32,
    worst: f64,
}

impl Acct {
    fn new(cfg: &Config) -> Acct {
        let r = cfg.nominal_ratio();
        let l = cfg.filter_len() as f64;
        Acct { tin: 0, tout: 0, r, l, bound: r * (l + 1.0 / r + 3.0) + 3.0, blk_in: fft_blocks(cfg).0, clean: true, settle: 0, worst: 0.0 }
    }
    /// returns a violation (clause, detail) if the step breaks the accounting
    fn on_step(&mut self, cfg: &Config, op: &Op, s: &StepRec) -> Option<(&'static str, String)> {
        match (op, &s.res) {
            (Op::SetRatio { rel, relative_api, .. }, StepRes::CtlOk) => {
                // after a ratio change the stream is again at a constant ratio once the (possibly ramped) next call is
                // done: a new segment starts there, bound doubled (both ends of the segment carry a filter state)
                self.clean = false;
                self.settle = 2;
                let m = cfg.max_rel;
                let v = setratio_effective(cfg, *rel, *relative_api);
                let _ = m;
                self.r = v;
                self.bound = 2.0 * (v * (self.l + 1.0 / v + 3.0) + 3.0) + 2.0;
            }
            (Op::Reset, StepRes::Reset) => {
                self.clean = true;
                self.settle = 0;
                self.tin = 0;
                self.tout = 0;
                self.r = cfg.nominal_ratio();
                self.bound = self.r * (self.l + 1.0 / self.r + 3.0) + 3.0;
            }
            (Op::Process { .. }, StepRes::Proc { .. }) if !self.clean => {
                if self.settle > 0 {
                    self.settle -= 1;
                }
                if self.settle == 0 {
                    self.clean = true;
                    self.tin = 0;
                    self.tout = 0;
                    return None;
                }
            }
            _ => {}
        }
        if !self.clean {
            return None;
        }
        if let StepRes::Proc { n_in, n_out } = s.res {
            self.tin += n_in as u64;
            self.tout += n_out as u64;
            let (tin, tout, r) = (self.tin, self.tout, self.r);
            if cfg.kind.is_async() {
                let d = (tout as f64 - r * tin as f64).abs();
                self.worst = self.worst.max(d / self.bound);
                if d > self.bound {
                    return Some(("async-drift-bound", format!("after {} in / {} out frames at ratio {}: |out - r*in| = {:.3} > bound {:.3}", tin, tout, r, d, self.bound)));
                }
            } else {
                let a = tin as i128 * cfg.rate_out as i128;
                let b = tout as i128 * cfg.rate_in as i128;
                let d = a - b;
                if d < 0 || d >= self.blk_in as i128 * cfg.rate_out as i128 {
                    return Some(("sync-within-one-block", format!("in {} out {} rates {}:{}: in*rate_out - out*rate_in = {} not in [0, {})", tin, tout, cfg.rate_in, cfg.rate_out, d, self.blk_in as i128 * cfg.rate_out as i128)));
                }
                if cfg.kind == Kind::FftInOut {
                    if d != 0 {
                        return Some(("inout-exact", format!("FftFixedInOut in {} out {}: difference {}", tin, tout, d)));
                    }
                    if n_in as u64 != self.blk_in {
                        return Some(("inout-smallest-block", format!("FftFixedInOut consumed {} per call, smallest admissible block for chunk {} rates {}:{} is {}", n_in, cfg.chunk, cfg.rate_in, cfg.rate_out, self.blk_in)));
                    }
                }
            }
        }
        None
    }
}

fn eval_c07(sc: &Scenario) -> Outcome {
    if sc.repeat > 0 {
        return if sc.config.f32 { eval_c07_stream::<f32>(sc) } else { eval_c07_stream::<f64>(sc) };
    }
    let (mut out, t) = eval_single(sc, &["C07"]);
    let cfg = &sc.config;
    let mut acct = Acct::new(cfg);
    for s in &t.steps {
        if let Some((clause, detail)) = acct.on_step(cfg, &sc.ops[s.op], s) {
            out.push("C07", clause, s.op, detail);
            break;
        }
    }
    out.cov.probe("calls_over_10000", (out.cov.calls > 10_000) as u64);
    out.cov.probe("worst_drift_over_half_bound", (acct.worst > 0.5) as u64);
    out
}

/// Streaming evaluation: `ops` once, then the last op `repeat` more times; nothing is recorded but the running totals.
fn eval_c07_stream<T: crate::sut::Flt>(sc: &Scenario) -> Outcome {
    let mut out = Outcome::default();
    let cfg = &sc.config;
    let mut r = match Runner::<T>::new(cfg, &sc.signal, RunOpts { keep_output: false, ..Default::default() }) {
        Ok(r) => r,
        Err(e) => {
            out.push("C07", "call-did-not-complete", 0, format!("construction failed: {}", e));
            return out;
        }
    };
    let mut acct = Acct::new(cfg);
    let total = sc.ops.len() as u64 + sc.repeat;
    let last = sc.ops.len().saturating_sub(1);
    let mut calls = 0u64;
    let mut digest = 0u64;
    for k in 0..total {
        let i = (k as usize).min(last);
        let op = &sc.ops[i];
        r.step(i, op);
        if let Some((step, msg)) = &r.trace.died {
            out.push("C07", "call-did-not-complete", *step, format!("call {} of the stream died: {}", k, msg));
            break;
        }
        let rec = r.trace.steps.last().cloned();
        if let Some(rec) = rec {
            if matches!(rec.res, StepRes::Proc { .. }) {
                calls += 1;
            }
            digest = mix(digest ^ rec.digest ^ (rec.post.in_next as u64) << 32);
            if let Some((clause, detail)) = acct.on_step(cfg, op, &rec) {
                out.push("C07", clause, i, format!("call {} of the stream: {}", k, detail));
                break;
            }
        }
        if r.trace.steps.len() >= 4096 {
            r.trace.steps.clear();
        }
        if let Some(v) = r.trace.viol.iter().find(|v| v.prop == "C03" && (v.clause == "panic" || v.clause == "valid-call-returned-err")) {
            out.push("C07", "call-did-not-complete", i, v.detail.clone());
            break;
        }
    }
    out.digest = mix(digest ^ r.trace.digest);
    out.cov.executions = 1;
    out.cov.ops = total;
    out.cov.calls = calls;
    out.cov.frames_in = r.trace.consumed;
    out.cov.frames_out = r.trace.total_out;
    out.cov.fault("F1_millions_of_small_chunks", (calls > 1_000_000) as u64);
    out.cov.probe("calls_over_10000", (calls > 10_000) as u64);
    out.cov.probe("calls_over_1000000", (calls > 1_000_000) as u64);
    out.cov.probe("worst_drift_over_half_bound", (acct.worst > 0.5) as u64);
    out
}

pub fn evaluate(sc: &Scenario) -> Outcome {
    let mut out = match sc.property.as_str() {
        "C03" => eval_single(sc, &["C03"]).0,
        "C04" => eval_single(sc, &["C04"]).0,
        "C09" => eval_single(sc, &["C09"]).0,
        "C07" => eval_c07(sc),
        _ => crate::oracle2::evaluate2(sc),
    };
    out.cov.shape = shape_of(sc);
    out.cov.kind = format!("{}/{}", sc.config.kind.name(), if sc.config.f32 { "f32" } else { "f64" });
    out.cov.profile = sc.profile.clone();
    out.cov.sim_seconds = sc.sim_seconds;
    out.cov.nontrivial = out.cov.calls >= 2 && out.cov.faults.values().sum::<u64>() > 0;
    if sc.profile == "ratematch" {
        let n = sc.ops.len() as u64;
        out.cov.fault("F12_clock_drift_profile_ops", n);
    }
    out
}
