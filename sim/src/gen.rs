//! Scenario generation: configuration domain (swarm-varied per run), workload profiles and
//! fault placement.  Everything is drawn from one `Rng` seeded by the run seed.

use crate::rng::Rng;
use crate::scenario::*;

#[derive(Clone, Copy, Debug, PartialEq, Eq)]
pub enum Tier {
    Quick,
    Thorough,
}

/// Knobs a property's generator sets before calling `gen_config` / `gen_ops`.
#[derive(Clone, Debug)]
pub struct Dom {
    pub kinds: Vec<Kind>,
    /// allow max_rel > 1 (ratio changes possible)
    pub ratio_changes: bool,
    /// cap for max_rel
    pub max_rel_cap: f64,
    pub kernel: Kernel,
    pub max_chunk: usize,
    pub max_channels: usize,
    pub max_sinc_len: usize,
    pub max_oversampling: usize,
    pub masks: bool,
    /// include constructor-accepted edge configurations (oversampling 1 with cubic, sub_chunks > chunk)
    pub edges: bool,
    /// force sample type
    pub f32: Option<bool>,
    /// only interpolation modes that are continuous in the position (no Nearest)
    pub no_nearest: bool,
    /// cap on fft rate/gcd
    pub fft_cap: usize,
    /// user-written (odd-length) interpolators through new_with_interpolator at a low rate
    pub custom_kernels: bool,
    /// zero-channel instances at a low rate
    pub zero_channels: bool,
    /// "wild" swarm: 3 % of the configurations widen one dimension far beyond the usual range
    pub wild: bool,
    /// the degenerate (constructor-accepted) filter length 0 at a low rate
    pub zero_len: bool,
}

impl Default for Dom {
    fn default() -> Self {
        Dom {
            kinds: ALL_KINDS.to_vec(),
            ratio_changes: true,
            max_rel_cap: 16.0,
            kernel: Kernel::Auto,
            max_chunk: 4096,
            max_channels: 8,
            max_sinc_len: 512,
            max_oversampling: 2048,
            masks: true,
            edges: true,
            f32: None,
            no_nearest: false,
            fft_cap: 640,
            custom_kernels: false,
            zero_channels: false,
            wild: false,
            zero_len: false,
        }
    }
}

const AUDIO_RATES: [usize; 11] = [8000, 11025, 16000, 22050, 32000, 44100, 48000, 88200, 96000, 176400, 192000];
const SMALL_PAIRS: [(usize, usize); 14] = [
    (1, 1),
    (1, 2),
    (2, 1),
    (3, 2),
    (2, 3),
    (7, 3),
    (3, 7),
    (5, 4),
    (160, 147),
    (147, 160),
    (1001, 1000),
    (1000, 1001),
    (4, 1),
    (1, 4),
];
const EXACT_RATIOS: [f64; 12] = [1.0, 2.0, 0.5, 48000.0 / 44100.0, 44100.0 / 48000.0, 1.5, 2.0 / 3.0, 4.0, 0.25, 16.0, 0.0625, 3.0];

/// the exact rationals of EXACT_RATIOS as (numerator, denominator) of ratio = out/in
const EXACT_FRACS: [(usize, usize); 12] = [(1, 1), (2, 1), (1, 2), (160, 147), (147, 160), (3, 2), (2, 3), (4, 1), (1, 4), (16, 1), (1, 16), (3, 1)];

fn gcd(a: usize, b: usize) -> usize {
    if b == 0 {
        a
    } else {
        gcd(b, a % b)
    }
}

pub fn gen_chunk(rng: &mut Rng, max: usize) -> usize {
    let special = [1usize, 2, 7, 8, 9, 64, 1024, 3, 16, 17, 255, 256, 4096];
    let c = if rng.chance(0.35) { *rng.pick(&special) } else { rng.log_usize(1, max.max(1)) };
    c.clamp(1, max.max(1))
}

pub fn gen_config(rng: &mut Rng, dom: &Dom) -> Config {
    let kind = *rng.pick(&dom.kinds);
    let f32_ = dom.f32.unwrap_or_else(|| rng.chance(0.5));
    // exact rationals: the fixed list, or a random small p/q
    let exact_frac: Option<(usize, usize)> = if rng.chance(0.3) {
        if rng.chance(0.6) {
            Some(EXACT_FRACS[rng.below(EXACT_FRACS.len() as u64) as usize])
        } else {
            Some((rng.usize_in(1, 12), rng.usize_in(1, 12)))
        }
    } else {
        None
    };
    let mut ratio = match exact_frac {
        Some((num, den)) => (num as f64 / den as f64).clamp(1.0 / 16.0, 16.0),
        None => rng.log_uniform(1.0 / 16.0, 16.0),
    };
    // near-resonant: a hair off the rational (slow drifts and snapping bugs live there)
    if exact_frac.is_some() && rng.chance(0.12) {
        let e = 10f64.powf(-rng.uniform(6.0, 10.0)) * if rng.chance(0.5) { 1.0 } else { -1.0 };
        ratio = (ratio * (1.0 + e)).clamp(1.0 / 16.0, 16.0);
    }
    // two-decimal values (double-rounding coincidences between max/ratio and 1/(ratio/max))
    if exact_frac.is_none() && rng.chance(0.08) {
        ratio = ((ratio * 100.0).round() / 100.0).max(0.07);
    }
    let max_rel = if !dom.ratio_changes {
        if rng.chance(0.5) {
            1.0
        } else {
            rng.log_uniform(1.0, dom.max_rel_cap.max(1.0 + 1e-9))
        }
    } else {
        let m = match rng.weighted(&[0.12, 0.33, 0.33, 0.22]) {
            0 => 1.0,
            1 => rng.uniform(1.0, 1.2),
            2 => rng.log_uniform(1.0, 4.0),
            _ => rng.log_uniform(1.0, 16.0),
        };
        if rng.chance(0.1) {
            *rng.pick(&[1.1, 1.5, 2.0, 4.0, 10.0, 16.0])
        } else {
            m
        }
        .min(dom.max_rel_cap)
        .max(1.0)
    };
    // largest step max_rel / ratio an exact integer (or max_rel a two-decimal value)
    let max_rel = if dom.ratio_changes && max_rel > 1.0 && rng.chance(0.06) {
        let k = (max_rel / ratio).round().max(1.0);
        let m = k * ratio;
        if m > 1.0 && m <= dom.max_rel_cap.max(16.0) * 1.01 {
            m
        } else {
            (max_rel * 100.0).round() / 100.0
        }
    } else {
        max_rel
    };
    let mut chunk = gen_chunk(rng, dom.max_chunk);
    // "resonant" chunk sizes: chunk/ratio or chunk*ratio an exact integer (rounding coincidences live there)
    if let Some((num, den)) = exact_frac {
        if rng.chance(0.4) {
            let base = if rng.chance(0.5) { num } else { den };
            let k = rng.log_usize(1, (dom.max_chunk / base.max(1)).max(1));
            chunk = (base * k).clamp(1, dom.max_chunk.max(1));
        }
    }
    let channels = {
        let c = rng.weighted(&[0.0, 0.4, 0.25, 0.1, 0.08, 0.05, 0.04, 0.04, 0.04]);
        c.clamp(1, dom.max_channels.max(1))
    };
    let sinc_lens = [8usize, 16, 24, 32, 40, 64, 100, 128, 136, 256, 512, 12, 60, 250];
    let mut sinc_len = *rng.pick(&sinc_lens);
    let very_long = dom.max_sinc_len >= 512 && rng.chance(0.03);
    if very_long {
        sinc_len = *rng.pick(&[1024usize, 1048, 1080, 1528, 2000, 2048, 2056]);
    } else if sinc_len > dom.max_sinc_len {
        sinc_len = dom.max_sinc_len;
    }
    let overs = [1usize, 2, 3, 4, 16, 128, 256, 2048, 5, 32, 160];
    let mut oversampling = *rng.pick(&overs);
    if oversampling > dom.max_oversampling {
        oversampling = dom.max_oversampling;
    }
    // table construction cost: keep len * oversampling large only rarely
    if sinc_len * oversampling > 65536 && !rng.chance(0.05) {
        oversampling = (65536 / sinc_len).max(1);
    }
    if very_long {
        oversampling = oversampling.min(8);
    }
    let mut interp = rng.below(4) as u8;
    if dom.no_nearest && interp == 0 {
        interp = 1 + rng.below(3) as u8;
    }
    if oversampling == 1 && interp >= 2 && !(dom.edges && rng.chance(0.3)) {
        // oversampling 1 only makes sense with Nearest/Linear; the cubic/quadratic edge is kept at a low rate
        interp = if dom.no_nearest { 1 } else { rng.below(2) as u8 };
    }
    let window = rng.below(6) as u8;
    let f_cutoff = if rng.chance(0.5) { 0.95 } else { rng.uniform(0.5, 0.99) as f32 };
    let mut degree = rng.below(5) as u8;
    if dom.no_nearest && degree == 0 {
        degree = 1 + rng.below(4) as u8;
    }
    // fft rates
    let (rate_in, rate_out) = loop {
        let (a, b) = if rng.chance(0.5) {
            (*rng.pick(&AUDIO_RATES), *rng.pick(&AUDIO_RATES))
        } else {
            let p = *rng.pick(&SMALL_PAIRS);
            let k = *rng.pick(&[1usize, 1, 100, 1000, 44100]);
            (p.0 * k, p.1 * k)
        };
        let g = gcd(a, b);
        if a / g <= dom.fft_cap && b / g <= dom.fft_cap {
            break (a, b);
        }
    };
    let mut sub_chunks = *rng.pick(&[1usize, 1, 1, 2, 2, 3, 4, 8]);
    if kind.is_fft() && rng.chance(0.2) {
        let g = gcd(rate_in, rate_out);
        let base = if rng.chance(0.5) { rate_in / g } else { rate_out / g };
        let k = rng.log_usize(1, (dom.max_chunk.min(4096) / base.max(1)).max(1));
        chunk = (base * k).clamp(1, dom.max_chunk.max(1));
    }
    if kind.is_fft() {
        // keep the fft block bounded: block = ceil(chunk/sub/min)*min
        if sub_chunks > chunk && !(dom.edges && rng.chance(0.02)) {
            sub_chunks = 1;
        }
        if chunk > 2048 && rng.chance(0.8) {
            chunk = rng.log_usize(1, 2048);
            if sub_chunks > chunk {
                sub_chunks = 1;
            }
        }
    }
    let mask = if dom.masks && rng.chance(0.2) {
        let mut m: Vec<bool> = (0..channels).map(|_| rng.chance(0.6)).collect();
        if rng.chance(0.1) {
            m.iter_mut().for_each(|x| *x = false);
        }
        Some(m)
    } else if dom.masks && rng.chance(0.05) {
        Some(vec![true; channels])
    } else {
        None
    };
    let empty_inactive = mask.is_some() && rng.chance(0.5);
    let mut kernel = dom.kernel;
    if dom.custom_kernels && kind.is_sinc() && kernel == Kernel::Auto && rng.chance(0.06) {
        kernel = Kernel::Custom;
        sinc_len = *rng.pick(&[2usize, 3, 5, 7, 9, 15, 33, 63, 100, 127]);
    }
    if dom.zero_len && kind.is_sinc() && kernel == Kernel::Auto && rng.chance(0.006) {
        sinc_len = 0;
    }
    let (channels, mask) = if dom.zero_channels && rng.chance(0.01) { (0, mask.map(|_| Vec::new())) } else { (channels, mask) };
    let mut cfg = Config {
        kind,
        f32: f32_,
        ratio,
        rate_in,
        rate_out,
        max_rel,
        chunk,
        sub_chunks,
        channels,
        sinc_len,
        oversampling,
        interp,
        window,
        f_cutoff,
        degree,
        kernel,
        cpu_mask: 0,
        mask,
        empty_inactive,
    };
    if dom.wild && rng.chance(0.03) {
        widen(rng, &mut cfg);
        if rng.chance(0.3) {
            // two dimensions at once
            widen(rng, &mut cfg);
        }
    }
    sanitize(&mut cfg);
    let p0 = std::env::var("RSIM_CHUNK0_P").ok().and_then(|s| s.parse::<f64>().ok()).unwrap_or(0.0);
    if dom.zero_len && p0 > 0.0 && rng.chance(p0) {
        cfg.chunk = 0;
    }
    cfg
}

/// Keep one call's buffers below ~16 Mi samples in total (the swarm modes multiply: big chunk x many channels x
/// extreme ratio); the deliberate "huge" mode has its own single-channel configurations.
pub fn sanitize(cfg: &mut Config) {
    let limit = (1u64 << 24) as f64;
    for _ in 0..40 {
        let r = cfg.nominal_ratio();
        let m = cfg.max_rel.max(1.0);
        let ch = cfg.channels.max(1) as f64;
        let (fin, fout) = match cfg.kind {
            Kind::SincIn | Kind::FastIn => (cfg.chunk as f64, cfg.chunk as f64 * r * m + 16.0),
            Kind::SincOut | Kind::FastOut => (cfg.chunk as f64 / r * m + 2.0 * cfg.sinc_len_rounded() as f64, cfg.chunk as f64),
            Kind::FftIn | Kind::FftInOut => (cfg.chunk as f64, cfg.chunk as f64 * r + cfg.rate_out as f64),
            Kind::FftOut => (cfg.chunk as f64 / r + cfg.rate_in as f64, cfg.chunk as f64),
        };
        // the async FixedOut internal buffer is (max_rel + 1) times the input size
        let internal = if matches!(cfg.kind, Kind::SincOut | Kind::FastOut) { fin * (m + 1.0) } else { fin };
        if (fin + fout + internal) * ch <= limit || cfg.chunk <= 1 {
            break;
        }
        if cfg.channels > 2 && ch > 4.0 {
            cfg.channels = (cfg.channels / 2).max(2);
            if let Some(mk) = &mut cfg.mask {
                mk.truncate(cfg.channels);
            }
        } else {
            cfg.chunk = (cfg.chunk / 2).max(1);
            if cfg.sub_chunks > cfg.chunk {
                cfg.sub_chunks = 1;
            }
        }
    }
    // ... and one call below ~2e10 multiply-adds (tens of seconds): a call cannot be interrupted, and the hang limit
    // must stay far above anything a valid call costs
    for _ in 0..40 {
        let m = cfg.max_rel.max(1.0);
        let c = call_cost(cfg, m).max(call_cost(cfg, 1.0 / m));
        if c <= 2.0e10 || cfg.chunk <= 1 {
            break;
        }
        if cfg.channels > 2 {
            cfg.channels = (cfg.channels / 2).max(2);
            if let Some(mk) = &mut cfg.mask {
                mk.truncate(cfg.channels);
            }
        } else {
            cfg.chunk = (cfg.chunk / 2).max(1);
            if cfg.sub_chunks > cfg.chunk {
                cfg.sub_chunks = 1;
            }
        }
    }
}

/// "Wild" swarm: one dimension of a configuration far outside the usual range (large but valid parameters).
pub fn widen(rng: &mut Rng, cfg: &mut Config) {
    match rng.below(9) {
        8 => {
            // deep read positions on a fine grid: fixed-output sinc at a very low ratio (position * factor >= 2^31)
            if cfg.kind.is_sinc() {
                cfg.oversampling = *rng.pick(&[2048usize, 4096, 16384]);
                cfg.sinc_len = 8;
                cfg.ratio = rng.log_uniform(1.0 / 512.0, 1.0 / 32.0);
                cfg.max_rel = cfg.max_rel.min(1.5);
                cfg.chunk = rng.usize_in(1024, 4096);
                cfg.channels = 1;
                cfg.mask = None;
            }
        }
        7 => {
            // sinc tables of millions of points (sizes in bytes then differ between f32 and f64)
            if cfg.kind.is_sinc() && cfg.kernel == Kernel::Auto {
                cfg.sinc_len = *rng.pick(&[512usize, 1024, 2048]);
                cfg.oversampling = *rng.pick(&[1500usize, 2049, 3000, 4096]);
                cfg.chunk = cfg.chunk.min(64);
                cfg.channels = 1;
                cfg.mask = None;
            }
        }
        0 => {
            // many channels (cheap configuration)
            cfg.channels = rng.usize_in(9, 100);
            cfg.chunk = cfg.chunk.min(128);
            cfg.sinc_len = cfg.sinc_len.min(32);
            if let Some(m) = &mut cfg.mask {
                m.resize(cfg.channels, true);
            }
        }
        1 => {
            // a very wide ratio range
            if cfg.kind.is_async() {
                cfg.max_rel = rng.log_uniform(16.0, 300.0);
                cfg.ratio = rng.log_uniform(0.5, 2.0);
                cfg.chunk = cfg.chunk.min(256);
                cfg.sinc_len = cfg.sinc_len.min(32);
            }
        }
        2 => {
            // relative cutoff above 1 (accepted by every constructor)
            cfg.f_cutoff = rng.uniform(1.0, 2.5) as f32;
        }
        3 => {
            // large chunks on cheap kernels
            let cheap = cfg.kind.is_fast() || cfg.kind.is_fft() || matches!(cfg.kernel, Kernel::Probe | Kernel::Custom);
            if cheap {
                cfg.chunk = rng.log_usize(4097, 1 << 20);
                cfg.channels = cfg.channels.min(2);
                if let Some(m) = &mut cfg.mask {
                    m.truncate(cfg.channels);
                }
                if cfg.kind.is_fft() {
                    cfg.sub_chunks = *rng.pick(&[1usize, 1, 2, 64, 1024]);
                    if cfg.sub_chunks == 1 {
                        cfg.chunk = cfg.chunk.min(1 << 19);
                    }
                }
            }
        }
        4 => {
            // very fine oversampling grid, long chunks on the probe kernel: position * factor beyond 2^31
            if cfg.kind.is_sinc() {
                cfg.oversampling = *rng.pick(&[4096usize, 8192, 16384]);
                cfg.sinc_len = 8;
                if matches!(cfg.kernel, Kernel::Probe | Kernel::Custom) {
                    cfg.chunk = rng.log_usize(1 << 17, 1 << 20);
                    cfg.channels = 1;
                    cfg.mask = None;
                }
            }
        }
        5 => {
            // sample rates beyond 2^32 with a huge common factor
            if cfg.kind.is_fft() {
                let f = 1usize << *rng.pick(&[30usize, 31, 32, 40]);
                let (a, b) = *rng.pick(&[(7usize, 3usize), (3, 7), (147, 160), (160, 147), (2, 1), (1, 2), (3, 2)]);
                cfg.rate_in = a * f;
                cfg.rate_out = b * f;
            }
        }
        _ => {
            // tiny ratios / huge ratios at the edge of the constructor's domain
            if cfg.kind.is_async() {
                cfg.ratio = if rng.chance(0.5) { rng.log_uniform(1.0 / 512.0, 1.0 / 16.0) } else { rng.log_uniform(16.0, 256.0) };
                // (the sanitizer keeps the buffers affordable: chunk / ratio can still reach millions of frames)
                cfg.max_rel = cfg.max_rel.min(2.0);
                cfg.sinc_len = cfg.sinc_len.min(32);
            }
        }
    }
}

/// "Huge" configurations: frame counts around and above 2^24, where f32 arithmetic on frame counts stops being
/// exact (the synchronous resamplers and FastFixedOut compute sizes in f32). One channel, small FFT blocks.
pub fn gen_huge_config(rng: &mut Rng) -> Config {
    // (FftFixedInOut is left out: a single FFT of 2^25 points needs gigabytes and tens of seconds per call)
    let kind = *rng.pick(&[Kind::FftIn, Kind::FftOut, Kind::FftIn, Kind::FftOut, Kind::FastOut]);
    let pairs = [(44100usize, 48000usize), (48000, 44100), (1000, 999), (6000, 48000), (3, 2), (2, 3), (1, 1), (147, 160)];
    let (rate_in, rate_out) = *rng.pick(&pairs);
    let g = gcd(rate_in, rate_out);
    let (min_in, min_out) = (rate_in / g, rate_out / g);
    let base = 1usize << 24;
    let mut chunk = match rng.below(4) {
        0 => base + 1 + rng.below(4000) as usize,
        1 => base - 64 + rng.below(200) as usize,
        2 => 0, // filled in below: an exact odd multiple of the FFT block
        _ => base + (rng.below(1 << 20) as usize) * 2 + 1,
    };
    // sub chunks so that one FFT block is around 1000-4000 frames
    let blk = if kind == Kind::FftOut { min_out } else { min_in };
    let target = rng.usize_in(1000, 4000).max(blk);
    let mut sub_chunks = (chunk / target).max(1);
    if chunk == 0 {
        // chunk = k * block with block = j * minimal block, k such that the product is an odd number above 2^24
        // (f32 cannot represent it): sub_chunks = k makes the library resolve exactly that block
        let j = rng.usize_in(1, 3);
        let block = blk * j;
        let mut k = base / block.max(1) + 1 + rng.below(200) as usize;
        while (k * block) % 2 == 0 && k < base / block.max(1) + 4000 {
            k += 1;
        }
        chunk = k * block;
        sub_chunks = k;
    }
    let mut ratio = 1.0;
    if kind == Kind::FastOut {
        // chunk / ratio around 2^24 input frames per call
        chunk = *rng.pick(&[4096usize, 65536, 16384]);
        ratio = chunk as f64 / (base as f64 + rng.uniform(-1000.0, 200000.0));
        sub_chunks = 1;
    }
    if kind == Kind::FftInOut {
        sub_chunks = 1;
        // FftFixedInOut has no sub chunks: keep the single FFT affordable
        chunk = base + 1 + rng.below(2000) as usize;
    }
    Config {
        kind,
        f32: rng.chance(0.7),
        ratio,
        rate_in,
        rate_out,
        max_rel: if kind == Kind::FastOut { *rng.pick(&[1.0, 1.05, 1.3]) } else { 1.0 },
        chunk,
        sub_chunks,
        channels: 1,
        sinc_len: 8,
        oversampling: 2,
        interp: 1,
        window: 0,
        f_cutoff: 0.95,
        degree: rng.below(5) as u8,
        kernel: Kernel::Auto,
        cpu_mask: 0,
        mask: None,
        empty_inactive: false,
    }
}

/// Directed "extremes" scenarios for the asynchronous kinds: the margins of the internal buffers and of the
/// advertised sizes are tightest when the largest step max_rel / ratio is (mathematically) an exact integer --
/// where 1/(ratio/max_rel) and max_rel/ratio can round to different sides of it --, the stream runs at exactly
/// the lowest ratio and then jumps to the highest, and the chunk size sweeps all residues modulo the step.
pub fn gen_extreme_directed(rng: &mut Rng, kind: Kind) -> (Config, Vec<Op>) {
    let ratio = ((rng.log_uniform(0.1, 4.0) * 100.0).round() / 100.0).max(0.07);
    let k = rng.usize_in(2, 16) as f64;
    // max_rel = k * ratio as a two-decimal product (0.99 * 11 = 10.89), or an integer, at least 1
    let mut max_rel = if rng.chance(0.7) { (k * ratio * 100.0).round() / 100.0 } else { k.min(16.0) };
    if max_rel < 1.0 {
        max_rel = (1.0 / ratio).ceil() * ratio;
        max_rel = (max_rel * 100.0).round() / 100.0;
    }
    let max_rel = max_rel.clamp(1.0, 40.0);
    let step = (max_rel / ratio).ceil() as usize;
    let custom = kind.is_sinc() && rng.chance(0.5);
    let sinc_len = if custom { *rng.pick(&[3usize, 5, 7, 9, 15, 33]) } else { *rng.pick(&[8usize, 16, 16, 24, 32]) };
    let flen = if kind.is_sinc() { sinc_len } else { 8 };
    let fixed_in = matches!(kind, Kind::SincIn | Kind::FastIn);
    let chunk = if fixed_in {
        if rng.chance(0.5) {
            // the first chunk at the lowest ratio ends exactly at the loop's end index: from the start position
            // -flen/2 the read position lands on it after a whole number of integer steps K
            let kk = (max_rel / ratio).round().max(1.0) as usize;
            flen / 2 + kk + 2 + kk * rng.usize_in(0, 40)
        } else {
            // every residue modulo the step, a few steps above the filter length
            flen + 1 + rng.usize_in(0, 4 * step.max(1) + 8)
        }
    } else {
        // fixed output: chunk * max_rel / ratio an exact integer
        let per = (ratio * 100.0).round() as usize;
        let g = {
            fn gg(a: usize, b: usize) -> usize {
                if b == 0 {
                    a
                } else {
                    gg(b, a % b)
                }
            }
            gg(per.max(1), 100)
        };
        if rng.chance(0.4) {
            // chunk / ratio an exact integer just below a power of two: adding the filter length crosses into the
            // next binade, where ceil(x) + k and ceil(x + k) can differ by the doubled rounding step
            let m = rng.usize_in(8, 13);
            let mut found = 0usize;
            for j in 0..200usize {
                let q = (1usize << m).saturating_sub(j); // chunk / ratio
                if q == 0 {
                    break;
                }
                if (q * per.max(1)) % 100 == 0 {
                    let c = q * per.max(1) / 100;
                    if c >= 1 && c <= 8192 {
                        found = c;
                        if rng.chance(0.5) {
                            break;
                        }
                    }
                }
            }
            if found > 0 {
                found
            } else {
                ((per.max(1) / g) * rng.usize_in(1, 40)).clamp(1, 4096)
            }
        } else {
            ((per.max(1) / g) * rng.usize_in(1, 40)).clamp(1, 4096)
        }
    };
    let oversampling = *rng.pick(&[1usize, 2, 2, 3, 4, 8]);
    let mut interp = rng.below(4) as u8;
    if oversampling == 1 && interp >= 2 {
        interp = 1;
    }
    let cfg = Config {
        kind,
        f32: rng.chance(0.5),
        ratio,
        rate_in: 1,
        rate_out: 1,
        max_rel,
        chunk,
        sub_chunks: 1,
        channels: 1,
        sinc_len,
        oversampling,
        interp,
        window: rng.below(6) as u8,
        f_cutoff: 0.95,
        degree: rng.below(5) as u8,
        kernel: if custom { Kernel::Custom } else { Kernel::Auto },
        cpu_mask: 0,
        mask: None,
        empty_inactive: false,
    };
    let (lo, hi) = (1.0 / max_rel, max_rel);
    let mut ops = Vec::new();
    let rounds = rng.usize_in(1, 4);
    for r in 0..rounds {
        if max_rel > 1.0 {
            ops.push(Op::SetRatio { rel: lo, ramp: r > 0 && rng.chance(0.3), relative_api: rng.chance(0.5) });
        }
        for _ in 0..(if rng.chance(0.5) { 1 } else { rng.usize_in(1, 3) }) {
            if cfg.kind.is_sinc() && fixed_in && r > 0 && rng.chance(0.5) {
                ops.push(Op::SetChunk { n: rng.usize_in(1, chunk) });
            }
            ops.push(Op::process());
        }
        if max_rel > 1.0 {
            ops.push(Op::SetRatio { rel: hi, ramp: rng.chance(0.2), relative_api: rng.chance(0.5) });
        }
        ops.push(Op::process());
        ops.push(Op::process());
        if rng.chance(0.3) {
            ops.push(Op::Reset);
        }
    }
    (cfg, ops)
}

/// Rough cost (multiply-adds) of one full processing call.
pub fn call_cost(cfg: &Config, rel: f64) -> f64 {
    let ch = cfg.channels as f64;
    match cfg.kind {
        Kind::SincIn => {
            let out = cfg.chunk as f64 * cfg.ratio * rel + 10.0;
            let pts = [1.0, 2.0, 3.0, 4.0][cfg.interp as usize % 4];
            out * ch * pts * cfg.sinc_len_rounded() as f64 + cfg.chunk as f64 * ch
        }
        Kind::SincOut => {
            let pts = [1.0, 2.0, 3.0, 4.0][cfg.interp as usize % 4];
            cfg.chunk as f64 * ch * pts * cfg.sinc_len_rounded() as f64 + cfg.chunk as f64 / (cfg.ratio * rel) * ch
        }
        Kind::FastIn => (cfg.chunk as f64 * cfg.ratio * rel + 10.0) * ch * 30.0 + cfg.chunk as f64 * ch,
        Kind::FastOut => cfg.chunk as f64 * ch * 30.0 + cfg.chunk as f64 / (cfg.ratio * rel) * ch,
        _ => {
            let r = cfg.rate_out as f64 / cfg.rate_in as f64;
            let n = cfg.chunk as f64 * (1.0 + r.max(1.0 / r)) + 64.0;
            n * ch * 60.0
        }
    }
}

/// Cost of constructing the instance (tables, plans).
pub fn build_cost(cfg: &Config) -> f64 {
    if cfg.kind.is_sinc() {
        (cfg.sinc_len_rounded() * cfg.oversampling) as f64 * 60.0
    } else if cfg.kind.is_fft() {
        let g = gcd(cfg.rate_in, cfg.rate_out);
        let blk = (cfg.chunk / cfg.sub_chunks.max(1)).max(1) + cfg.rate_in / g + cfg.rate_out / g;
        blk as f64 * 400.0
    } else {
        1000.0
    }
}

/// In-range relative ratio for `cfg` (strictly inside unless `edges`).
pub fn gen_rel(rng: &mut Rng, cfg: &Config, edges: bool) -> f64 {
    let m = cfg.max_rel;
    if m <= 1.0 {
        return 1.0;
    }
    let c = rng.weighted(&[0.5, 0.15, 0.15, 0.1, 0.1, 0.08]);
    match c {
        5 => {
            // a trim far below the usual step: 1 +- 10^-(6..13)
            let e = rng.uniform(6.0, 13.0);
            let d = 10f64.powf(-e) * if rng.chance(0.5) { 1.0 } else { -1.0 };
            let v = 1.0 + d;
            if v >= 1.0 / m && v <= m {
                v
            } else {
                1.0
            }
        }
        0 => {
            let l = m.ln() * 0.999;
            (rng.uniform(-l, l)).exp()
        }
        1 => {
            if edges {
                m
            } else {
                (m * (1.0 - 1e-9)).max(1.0)
            }
        }
        2 => {
            if edges {
                1.0 / m
            } else {
                ((1.0 / m) * (1.0 + 1e-9)).min(1.0)
            }
        }
        3 => 1.0,
        _ => {
            // small drift around 1 (clock matching)
            let d = rng.uniform(-1.0, 1.0) * (m - 1.0).min(0.01);
            let (lo, hi) = (1.0 / m * (1.0 + 1e-9), m * (1.0 - 1e-9));
            if lo <= hi {
                (1.0 + d).clamp(lo, hi)
            } else {
                1.0
            }
        }
    }
}

#[derive(Clone, Debug)]
pub struct OpMix {
    pub n_ops: usize,
    pub w_process: f64,
    pub w_partial: f64,
    pub w_ratio: f64,
    pub w_chunk: f64,
    pub w_reset: f64,
    /// the caller changes its mask argument mid-stream
    pub w_mask: f64,
    /// malformed calls (rejected, must change nothing)
    pub w_bad: f64,
    /// probability that a processing call goes through a non-core path
    pub p_alt_path: f64,
    pub p_slack: f64,
    /// channels get different numbers of real frames
    pub p_ragged: f64,
    /// some channels share one slice object
    pub p_alias: f64,
    pub p_ramp: f64,
    pub ratio_edges: bool,
}

impl OpMix {
    pub fn swarm(rng: &mut Rng, n_ops: usize) -> OpMix {
        OpMix {
            n_ops,
            w_process: 1.0,
            w_partial: if rng.chance(0.5) { 0.0 } else { rng.uniform(0.0, 0.2) },
            w_ratio: if rng.chance(0.25) { 0.0 } else { rng.uniform(0.05, 0.6) },
            w_chunk: if rng.chance(0.4) { 0.0 } else { rng.uniform(0.02, 0.4) },
            w_reset: if rng.chance(0.5) { 0.0 } else { rng.uniform(0.0, 0.08) },
            w_mask: 0.0,
            w_bad: 0.0,
            p_alt_path: if rng.chance(0.5) { 0.0 } else { rng.uniform(0.0, 0.5) },
            p_slack: if rng.chance(0.5) { 0.0 } else { rng.uniform(0.0, 0.6) },
            p_ragged: if rng.chance(0.6) { 0.0 } else { rng.uniform(0.0, 0.5) },
            p_alias: if rng.chance(0.8) { 0.0 } else { rng.uniform(0.1, 0.8) },
            p_ramp: rng.unit(),
            ratio_edges: true,
        }
    }
}

pub fn gen_process(rng: &mut Rng, mix: &OpMix, partial: bool) -> Op {
    let path = if partial {
        *rng.pick(&[Path::PartialInto, Path::PartialWrapper, Path::VecPartialInto, Path::VecPartialWrapper, Path::PartialInto])
    } else if rng.chance(mix.p_alt_path) {
        *rng.pick(&ALL_PATHS)
    } else {
        Path::IntoBuffer
    };
    let valid = if partial {
        if rng.chance(0.35) {
            Some(0)
        } else {
            Some(rng.log_usize(1, 5000) as u32)
        }
    } else {
        None
    };
    let (slack_in, slack_out) = if rng.chance(mix.p_slack) {
        (*rng.pick(&[0u16, 1, 1, 7, 64, 1000]), *rng.pick(&[0u16, 1, 1, 7, 64, 1000]))
    } else {
        (0, 0)
    };
    let ragged = if rng.chance(mix.p_ragged) { 1 + rng.below(255) as u8 } else { 0 };
    let alias = rng.chance(mix.p_alias);
    Op::Process { path, valid, slack_in, slack_out, slices: if alias { rng.chance(0.7) } else { rng.chance(0.2) }, ragged: if alias { 0 } else { ragged }, alias }
}

pub fn gen_set_mask(rng: &mut Rng, cfg: &Config) -> Op {
    if rng.chance(0.25) {
        return Op::SetMask { mask: None };
    }
    let mut m: Vec<bool> = (0..cfg.channels).map(|_| rng.chance(0.6)).collect();
    if rng.chance(0.1) {
        m.iter_mut().for_each(|x| *x = false);
    }
    Op::SetMask { mask: Some(m) }
}

/// Sprinkle mask changes / malformed calls into an op list (used by the workloads whose oracle allows them).
pub fn sprinkle(rng: &mut Rng, cfg: &Config, ops: &mut Vec<Op>, p_mask: f64, p_bad: f64) {
    let mut i = 0;
    while i < ops.len() {
        if rng.chance(p_mask) {
            ops.insert(i, gen_set_mask(rng, cfg));
            i += 1;
        }
        if rng.chance(p_bad) {
            ops.insert(i, crate::oracle2::gen_bad_op(rng, cfg));
            i += 1;
        }
        i += 1;
    }
}

/// Uniform profile: ops i.i.d. from the alphabet with per-run weights.
pub fn gen_ops_uniform(rng: &mut Rng, cfg: &Config, mix: &OpMix) -> Vec<Op> {
    let mut ops = Vec::with_capacity(mix.n_ops);
    let can_ratio = cfg.kind.is_async() && cfg.max_rel > 1.0;
    let can_chunk = cfg.kind.is_sinc();
    let w = [
        mix.w_process,
        mix.w_partial,
        if can_ratio { mix.w_ratio } else { 0.0 },
        if can_chunk { mix.w_chunk } else { 0.0 },
        mix.w_reset,
        mix.w_mask,
        mix.w_bad,
    ];
    for _ in 0..mix.n_ops {
        match rng.weighted(&w) {
            0 => ops.push(gen_process(rng, mix, false)),
            1 => ops.push(gen_process(rng, mix, true)),
            2 => ops.push(Op::SetRatio { rel: gen_rel(rng, cfg, mix.ratio_edges), ramp: rng.chance(mix.p_ramp), relative_api: rng.chance(0.5) }),
            3 => ops.push(Op::SetChunk { n: gen_chunk(rng, cfg.chunk) }),
            4 => ops.push(Op::Reset),
            5 => ops.push(gen_set_mask(rng, cfg)),
            _ => ops.push(crate::oracle2::gen_bad_op(rng, cfg)),
        }
    }
    ops
}

/// Adversarial profile: extremes first.
pub fn gen_ops_adversarial(rng: &mut Rng, cfg: &Config, mix: &OpMix) -> Vec<Op> {
    let mut ops = Vec::new();
    let can_ratio = cfg.kind.is_async() && cfg.max_rel > 1.0;
    let can_chunk = cfg.kind.is_sinc();
    let m = cfg.max_rel;
    let inside = 1.0 - 1e-9;
    let (hi, lo) = if mix.ratio_edges { (m, 1.0 / m) } else { (m * inside, (1.0 / m) / inside) };
    let style = rng.below(7);
    let mut toggle = rng.chance(0.5);
    while ops.len() < mix.n_ops {
        match style {
            0 => {
                // alternate min/max every call
                if can_ratio {
                    ops.push(Op::SetRatio { rel: if toggle { hi } else { lo }, ramp: rng.chance(mix.p_ramp), relative_api: rng.chance(0.5) });
                    toggle = !toggle;
                }
                ops.push(gen_process(rng, mix, false));
            }
            1 => {
                // several calls at one extreme, then jump to the other
                if can_ratio {
                    ops.push(Op::SetRatio { rel: if toggle { hi } else { lo }, ramp: rng.chance(mix.p_ramp), relative_api: rng.chance(0.5) });
                    toggle = !toggle;
                }
                for _ in 0..rng.usize_in(1, 4) {
                    ops.push(gen_process(rng, mix, false));
                }
            }
            2 => {
                // chunk 1 / chunk max alternation, control call between every pair of processing calls
                if can_chunk {
                    ops.push(Op::SetChunk { n: if toggle { 1 } else { cfg.chunk } });
                    toggle = !toggle;
                }
                if can_ratio && rng.chance(0.5) {
                    ops.push(Op::SetRatio { rel: gen_rel(rng, cfg, mix.ratio_edges), ramp: rng.chance(mix.p_ramp), relative_api: rng.chance(0.5) });
                }
                ops.push(gen_process(rng, mix, false));
            }
            3 => {
                // change of chunk size every call
                if can_chunk {
                    ops.push(Op::SetChunk { n: gen_chunk(rng, cfg.chunk) });
                }
                ops.push(gen_process(rng, mix, false));
                if can_ratio && rng.chance(0.3) {
                    ops.push(Op::SetRatio { rel: if rng.chance(0.5) { hi } else { lo }, ramp: true, relative_api: false });
                }
            }
            6 => {
                // pre-roll stress: chunks at exactly the lowest ratio (largest step), then a jump without ramp to the
                // highest; the chunk size varies so that the low-ratio chunk ends anywhere in its step window
                if can_ratio {
                    ops.push(Op::SetRatio { rel: lo, ramp: false, relative_api: rng.chance(0.5) });
                }
                for _ in 0..rng.usize_in(1, 3) {
                    if can_chunk {
                        ops.push(Op::SetChunk { n: gen_chunk(rng, cfg.chunk) });
                    }
                    ops.push(gen_process(rng, mix, false));
                }
                if can_ratio {
                    ops.push(Op::SetRatio { rel: hi, ramp: false, relative_api: rng.chance(0.5) });
                }
                ops.push(gen_process(rng, mix, false));
                ops.push(gen_process(rng, mix, false));
            }
            4 => {
                // reset mid-ramp
                if can_ratio {
                    ops.push(Op::SetRatio { rel: gen_rel(rng, cfg, mix.ratio_edges), ramp: true, relative_api: rng.chance(0.5) });
                }
                if rng.chance(0.3) {
                    ops.push(Op::Reset);
                }
                ops.push(gen_process(rng, mix, false));
                ops.push(gen_process(rng, mix, false));
            }
            _ => {
                // several setter calls in a row before one processing call
                for _ in 0..rng.usize_in(1, 3) {
                    if can_ratio {
                        let rel = gen_rel(rng, cfg, mix.ratio_edges);
                        let ramp = rng.chance(mix.p_ramp);
                        let api = rng.chance(0.5);
                        ops.push(Op::SetRatio { rel, ramp, relative_api: api });
                        if rng.chance(0.4) {
                            // the same value again with the other ramp flag (and possibly through the other setter)
                            ops.push(Op::SetRatio { rel, ramp: !ramp, relative_api: if rng.chance(0.5) { api } else { !api } });
                        }
                    }
                    if can_chunk && rng.chance(0.5) {
                        ops.push(Op::SetChunk { n: gen_chunk(rng, cfg.chunk) });
                    }
                }
                ops.push(gen_process(rng, mix, false));
            }
        }
    }
    ops.truncate(mix.n_ops);
    ops
}

/// Clip client: full chunks, one partial, None flushes, reset, next clip.
pub fn gen_ops_clip(rng: &mut Rng, cfg: &Config, mix: &OpMix) -> Vec<Op> {
    let mut ops = Vec::new();
    let can_ratio = cfg.kind.is_async() && cfg.max_rel > 1.0;
    while ops.len() < mix.n_ops {
        if can_ratio && rng.chance(0.3) {
            ops.push(Op::SetRatio { rel: gen_rel(rng, cfg, mix.ratio_edges), ramp: false, relative_api: rng.chance(0.5) });
        }
        for _ in 0..rng.usize_in(0, 6) {
            ops.push(gen_process(rng, mix, false));
        }
        let p = *rng.pick(&[Path::PartialInto, Path::PartialWrapper, Path::VecPartialInto, Path::VecPartialWrapper]);
        ops.push(Op::Process { path: p, valid: Some(rng.log_usize(1, 5000) as u32), slack_in: 0, slack_out: 0, slices: false, ragged: 0, alias: false });
        for _ in 0..rng.usize_in(1, 3) {
            let p = *rng.pick(&[Path::PartialInto, Path::PartialWrapper, Path::VecPartialInto, Path::VecPartialWrapper]);
            ops.push(Op::Process { path: p, valid: Some(0), slack_in: 0, slack_out: 0, slices: false, ragged: 0, alias: false });
        }
        ops.push(Op::Reset);
    }
    ops.truncate(mix.n_ops);
    ops
}

/// Rate-matching loop: discrete-event simulation of capture clock, playback clock, FIFO and
/// a controller that nudges the ratio.  rubato reads no clock: simulated time only shapes the
/// op history.  Returns (ops, simulated seconds).
pub fn gen_ops_ratematch(rng: &mut Rng, cfg: &Config, mix: &OpMix) -> (Vec<Op>, f64) {
    let mut ops = Vec::new();
    let m = cfg.max_rel;
    let can_ratio = cfg.kind.is_async() && m > 1.0;
    // capture clock error (relative), random walk with jumps, bounded by what the range can follow
    let span = (m - 1.0).min(0.2);
    let mut drift = rng.uniform(-span, span) * 0.5;
    let fs = 48000.0;
    let mut t = 0.0f64; // simulated seconds
    let mut fifo = 0.0f64; // frames queued at the consumer, relative to target
    let mut rel = 1.0f64;
    let period = rng.usize_in(1, 6);
    let ramp_p = mix.p_ramp;
    let stall_p = if rng.chance(0.5) { 0.0 } else { rng.uniform(0.0, 0.1) };
    let jump_p = if rng.chance(0.5) { 0.0 } else { rng.uniform(0.0, 0.05) };
    let mut k = 0usize;
    while ops.len() < mix.n_ops {
        // event: a burst of capture data is ready
        let in_frames = match cfg.kind {
            Kind::SincIn | Kind::FastIn => cfg.chunk as f64,
            _ => cfg.chunk as f64 / (cfg.ratio * rel),
        };
        let dt = in_frames / fs;
        t += dt;
        // clock fault injection
        if rng.chance(jump_p) {
            drift = rng.uniform(-span, span);
        } else {
            drift = (drift + rng.uniform(-1.0, 1.0) * span * 0.02).clamp(-span, span);
        }
        // the playback side consumed in_frames*ratio*(1+drift) frames in that time, we produced in_frames*ratio*rel
        fifo += in_frames * cfg.ratio * (rel - (1.0 + drift));
        if can_ratio && k % period == 0 {
            // proportional controller on the fifo error
            let target = (1.0 + drift) - 0.01 * fifo / (cfg.chunk as f64).max(16.0);
            let lo = (1.0 / m) * (1.0 + 1e-12);
            let hi = m * (1.0 - 1e-12);
            rel = if lo <= hi { target.clamp(lo, hi) } else { 1.0 };
            ops.push(Op::SetRatio { rel, ramp: rng.chance(ramp_p), relative_api: rng.chance(0.5) });
        }
        if rng.chance(stall_p) {
            // producer stall: underrun, only part of the chunk arrived -> zero padded call
            let have = rng.log_usize(1, 5000) as u32;
            ops.push(Op::Process { path: Path::IntoBuffer, valid: Some(have), slack_in: 0, slack_out: 0, slices: false, ragged: 0, alias: false });
        } else {
            ops.push(gen_process(rng, mix, false));
        }
        k += 1;
    }
    ops.truncate(mix.n_ops);
    (ops, t)
}

pub fn gen_tiny(rng: &mut Rng) -> Signal {
    // f32 subnormals are below 1.2e-38, f64 subnormals below 2.2e-308
    Signal::Tiny { seed: rng.next(), scale: *rng.pick(&[1e-39, 1e-41, 1e-43, 1e-309, 1e-315, 1e-36]) }
}

pub fn gen_signal(rng: &mut Rng) -> Signal {
    if rng.chance(0.04) {
        return gen_tiny(rng);
    }
    match rng.weighted(&[0.6, 0.2, 0.15, 0.05]) {
        0 => Signal::Noise { seed: rng.next() },
        1 => Signal::Impulses { seed: rng.next(), period: rng.usize_in(3, 400) as u32, floor: if rng.chance(0.5) { 0.0 } else { 0.01 } },
        2 => Signal::Multisine { seed: rng.next() },
        _ => Signal::Const { v: rng.uniform(-1.0, 1.0) },
    }
}

/// Pick a profile and generate ops. Returns (profile name, ops, sim seconds).
pub fn gen_history(rng: &mut Rng, cfg: &Config, mix: &OpMix) -> (String, Vec<Op>, f64) {
    match rng.weighted(&[0.4, 0.25, 0.15, 0.2]) {
        0 => ("uniform".into(), gen_ops_uniform(rng, cfg, mix), 0.0),
        1 => ("adversarial".into(), gen_ops_adversarial(rng, cfg, mix), 0.0),
        2 => ("clip".into(), gen_ops_clip(rng, cfg, mix), 0.0),
        _ => {
            let (o, t) = gen_ops_ratematch(rng, cfg, mix);
            ("ratematch".into(), o, t)
        }
    }
}

/// Number of ops affordable under a work budget.
pub fn ops_budget(cfg: &Config, budget: f64, lo: usize, hi: usize, rng: &mut Rng) -> usize {
    let worst_rel = cfg.max_rel;
    let c = call_cost(cfg, worst_rel).max(call_cost(cfg, 1.0 / worst_rel)).max(1.0);
    let afford = ((budget - build_cost(cfg)).max(0.0) / c) as usize;
    let want = rng.usize_in(lo, hi);
    want.min(afford.max(3))
}
